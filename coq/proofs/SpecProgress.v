(** C08 refinement, part 5 (progress): a fixed-weight session over a market that quotes every asset
    of the universe and of the weight vector at a positive price at every clock instant never raises
    (long-only: with non-negative weights).  Together with [SpecRun.backtest_refines_spec] this makes
    the agreement with the rules simulator unconditional on such inputs. *)
From Coq Require Import ZArith QArith Qround Qabs String Bool List Lia Lqa Permutation Sorted.
From QS Require Import theories.Num theories.Position theories.Portfolio theories.Fees theories.Exchange
  theories.Broker theories.Calendar theories.Clock theories.Schedule theories.Sizer theories.PCM theories.Backtest theories.Spec
  proofs.QLemmas proofs.Ledger proofs.Holdings proofs.PcmProofs proofs.ClockProofs proofs.BacktestProofs
  proofs.SpecLists proofs.SpecSizing proofs.SpecBroker proofs.SpecRun.
Import ListNotations.
Open Scope Z_scope.

(** * Clocks of a portfolio, the assets it may touch, quotes *)
Definition stamped (T : Z) (pf : portfolio) : Prop :=
  pf_dt pf <= T /\ Forall (fun ap => p_dt (snd ap) <= T) (pf_pos pf).
Definition within (A : list string) (pf : portfolio) (q : list order) : Prop :=
  (forall a, In a (map fst (pf_pos pf)) -> In a A) /\ (forall o, In o q -> In (o_asset o) A).
Definition quoted (A : list string) (snap : snapshot) : Prop :=
  forall a, In a A -> exists p, snap_find a snap = Some p /\ (0 < p)%Q.
Definition Good (A : list string) (T : Z) (b : broker) : Prop :=
  exists pf q, b_accts b = [(pid, mkAcct pf q)] /\ stamped T pf /\ within A pf q.

Lemma stamped_mono T T' pf : T <= T' -> stamped T pf -> stamped T' pf.
Proof.
  intros L [H F]. split; [lia|]. rewrite Forall_forall in *. intros x I. specialize (F x I). lia.
Qed.

(** * Marking never fails on a quoted, correctly stamped portfolio *)
Lemma pf_mark_ok pf a p0 m t :
  pos_find a (pf_pos pf) = Some p0 -> (0 < m)%Q -> stamped t pf ->
  exists pf1, pf_mark pf a m t = (pf1, Ok tt) /\ stamped t pf1 /\ map fst (pf_pos pf1) = map fst (pf_pos pf).
Proof.
  intros F M [SD SP]. unfold pf_mark. rewrite F.
  assert (Q1 : qltb m 0 = false) by (apply qltb_ge; lra). rewrite Q1.
  assert (L1 : (t <? pf_dt pf) = false) by (apply Z.ltb_ge; lia). rewrite L1.
  assert (P0 : p_dt p0 <= t).
  { rewrite Forall_forall in SP. apply (SP (a, p0)). apply pos_find_in. exact F. }
  unfold pos_update_price.
  assert (L2 : (t <? p_dt p0) = false) by (apply Z.ltb_ge; lia). rewrite L2.
  assert (Q2 : qleb m 0 = false) by (apply qleb_gt; exact M). rewrite Q2.
  eexists. split; [reflexivity|]. cbn [pf_dt pf_pos]. split.
  - split; [exact SD|]. apply forall_pos_set; [exact SP|]. simpl. lia.
  - rewrite keys_set, F. reflexivity.
Qed.

Lemma mark_assets_ok snap t : forall assets pf,
  (forall a, In a assets -> In a (map fst (pf_pos pf))) ->
  (forall a, In a assets -> exists p, snap_find a snap = Some p /\ (0 < p)%Q) ->
  stamped t pf ->
  exists pf1, mark_assets (snap_mid snap) pf assets t = (pf1, Ok tt) /\ stamped t pf1 /\
              map fst (pf_pos pf1) = map fst (pf_pos pf).
Proof.
  induction assets as [|a r IH]; intros pf SUB QU ST; cbn [mark_assets].
  - exists pf. repeat split; try reflexivity; apply ST.
  - destruct (QU a (or_introl eq_refl)) as (m & SF & MP). unfold snap_mid at 1. rewrite SF.
    destruct (pos_find a (pf_pos pf)) as [p0|] eqn:F.
    2:{ apply pos_find_none_notin in F. exfalso. apply F. apply SUB. left; reflexivity. }
    destruct (pf_mark_ok pf a p0 m t F MP ST) as (pfx & M & STx & Kx). rewrite M.
    destruct (IH pfx) as (pf1 & M1 & ST1 & K1).
    + intros x I. rewrite Kx. apply SUB. right; exact I.
    + intros x I. apply QU. right; exact I.
    + exact STx.
    + exists pf1. split; [exact M1|]. split; [exact ST1|]. congruence.
Qed.

(** * Executing an order on a quoted asset never fails *)
Lemma pos_transact_ok p0 tx :
  p_dt p0 <= t_dt tx -> (0 < t_price tx)%Q ->
  exists p', pos_transact p0 tx = (p', Ok tt) /\ p_dt p' <= t_dt tx.
Proof.
  intros D P. unfold pos_transact. destruct (qty_ignored (t_qty tx)); [exists p0; split; [reflexivity|exact D]|].
  assert (Q2 : qleb (t_price tx) 0 = false) by (apply qleb_gt; exact P).
  destruct (qltb 0 (t_qty tx)); unfold pos_update_price; cbn [p_dt pos_buy pos_sell];
    (assert (L : (t_dt tx <? p_dt p0) = false) by (apply Z.ltb_ge; lia)); rewrite L, Q2;
    eexists; (split; [reflexivity|]); cbn; lia.
Qed.

Lemma execute_ok snap A b pf q0 o :
  b_accts b = [(pid, mkAcct pf q0)] -> stamped (b_dt b) pf -> within A pf q0 ->
  In (o_asset o) A -> quoted A snap ->
  exists b1 ef pf1, execute (snap_bidask snap) b pid o = (b1, Ok tt, ef) /\
    b_accts b1 = [(pid, mkAcct pf1 q0)] /\ b_dt b1 = b_dt b /\ stamped (b_dt b) pf1 /\ within A pf1 q0.
Proof.
  intros HA [SD SP] [WP WQ] IA QU. destruct (QU _ IA) as (p & SF & PP).
  unfold execute, snap_bidask. rewrite SF.
  assert (PR : (if 0 <=? o_qty o then p else p) = p) by (destruct (0 <=? o_qty o); reflexivity). rewrite PR.
  rewrite HA. cbn [acct_find]. change (String.eqb pid pid) with true. cbv iota. cbn [a_pf a_q].
  set (tx := mkTxn (o_asset o) (inject_Z (o_qty o)) (b_dt b) p _ (o_id o)).
  unfold pf_transact. assert (L : (t_dt tx <? pf_dt pf) = false) by (apply Z.ltb_ge; cbn; lia). rewrite L.
  assert (PH : exists ps, ph_transact (pf_pos pf) tx = (ps, Ok tt) /\
                 Forall (fun ap => p_dt (snd ap) <= b_dt b) ps /\ (forall a, In a (map fst ps) -> In a A)).
  { unfold ph_transact. cbn [t_asset tx]. destruct (pos_find (o_asset o) (pf_pos pf)) as [p0|] eqn:F.
    - assert (P0 : p_dt p0 <= t_dt tx).
      { rewrite Forall_forall in SP. apply (SP (o_asset o, p0)). apply pos_find_in. exact F. }
      destruct (pos_transact_ok p0 tx P0 PP) as (p' & PT & PD). rewrite PT.
      assert (KS : forall a, In a (map fst (pos_set (o_asset o) p' (pf_pos pf))) -> In a A).
      { intros a I. rewrite keys_set, F in I. apply WP. exact I. }
      destruct (qeqb (pos_net p') 0); eexists; (split; [reflexivity|]); split.
      + apply forall_pos_del. apply forall_pos_set; [exact SP|exact PD].
      + intros a I. apply KS. eapply keys_del_incl. exact I.
      + apply forall_pos_set; [exact SP|exact PD].
      + exact KS.
    - assert (KS : forall a, In a (map fst (pos_set (o_asset o) (pos_open tx) (pf_pos pf))) -> In a A).
      { intros a I. rewrite keys_set, F in I. apply in_app_iff in I. destruct I as [I|[I|[]]]; [apply WP; exact I|subst; exact IA]. }
      assert (OD : p_dt (pos_open tx) <= b_dt b) by (unfold pos_open; destruct (qltb 0 (t_qty tx)); cbn; lia).
      destruct (qeqb (pos_net (pos_open tx)) 0); eexists; (split; [reflexivity|]); split.
      + apply forall_pos_del. apply forall_pos_set; [exact SP|exact OD].
      + intros a I. apply KS. eapply keys_del_incl. exact I.
      + apply forall_pos_set; [exact SP|exact OD].
      + exact KS. }
  destruct PH as (ps & PH & FS & KS). rewrite PH.
  eexists. eexists. eexists. split; [reflexivity|]. cbn [b_accts set_accts acct_set b_dt].
  change (String.eqb pid pid) with true. cbv iota. split; [reflexivity|]. split; [reflexivity|].
  split; [split; [cbn; lia|exact FS]|]. split; [exact KS|exact WQ].
Qed.

Lemma execute_all_ok snap A : forall os b pf q0,
  b_accts b = [(pid, mkAcct pf q0)] -> stamped (b_dt b) pf -> within A pf q0 ->
  (forall o, In o os -> In (o_asset o) A) -> quoted A snap ->
  exists b1 ef pf1, execute_all (snap_bidask snap) b (map (fun o => (pid, o)) os) = (b1, Ok tt, ef) /\
    b_accts b1 = [(pid, mkAcct pf1 q0)] /\ b_dt b1 = b_dt b /\ stamped (b_dt b) pf1 /\ within A pf1 q0.
Proof.
  induction os as [|o r IH]; intros b pf q0 HA ST WI IA QU; cbn [map execute_all].
  - exists b, [], pf. repeat split; try reflexivity; try apply ST; try apply WI. exact HA.
  - destruct (execute_ok snap A b pf q0 o HA ST WI (IA o (or_introl eq_refl)) QU) as (bx & ex & pfx & X & HAx & Dx & STx & WIx).
    rewrite X. rewrite <- Dx in STx.
    destruct (IH bx pfx q0 HAx STx WIx (fun o' I => IA o' (or_intror I)) QU) as (b1 & e1 & pf1 & X1 & HA1 & D1 & ST1 & WI1).
    rewrite X1. exists b1, (ex ++ e1), pf1. split; [reflexivity|]. split; [exact HA1|]. split; [congruence|].
    rewrite <- Dx. split; assumption.
Qed.

(** * A clock update never fails *)
Lemma clock_ok_of_stamped t opn pf q : stamped t pf -> acct_clock_ok t opn (mkAcct pf q) = true.
Proof.
  intros [SD SP]. unfold acct_clock_ok. cbn [a_pf a_q]. apply andb_true_iff. split.
  - assert (L : (pf_dt pf <=? t) = true) by (apply Z.leb_le; exact SD).
    destruct (pf_pos pf); [destruct (opn && negb match q with [] => true | _ => false end)|]; auto.
  - apply forallb_forall. intros x I. rewrite Forall_forall in SP. apply Z.leb_le. apply SP. exact I.
Qed.

Lemma update_ok snap A T b t :
  Good A T b -> T <= t -> quoted A snap ->
  exists b1 ef, update (snap_bidask snap) (snap_mid snap) true b t = (b1, Ok tt, ef) /\ b_dt b1 = t /\
    exists pf q pf1, b_accts b = [(pid, mkAcct pf q)] /\
                     b_accts b1 = [(pid, mkAcct pf1 (if is_open t then [] else q))] /\ stamped t pf1 /\
                     within A pf1 (if is_open t then [] else q).
Proof.
  intros (pf & q & HA & ST & [WP WQ]) LE QU. apply (stamped_mono _ _ _ LE) in ST.
  unfold update. rewrite HA. cbn [forallb snd]. rewrite (clock_ok_of_stamped t (is_open t) pf q ST). cbn [andb negb].
  cbn [set_now b_accts mark_all a_pf a_q]. rewrite HA. cbn [mark_all a_pf a_q].
  destruct (mark_assets_ok snap t (map fst (pf_pos pf)) pf (fun a I => I) (fun a I => QU a (WP a I)) ST) as (pf1 & M & ST1 & K1).
  rewrite M.
  destruct (is_open t) eqn:OP.
  - cbn [drained empty_queues flat_map map fst snd a_q a_pf]. rewrite app_nil_r.
    unfold sells_first.
    assert (S1 : filter is_sell (map (fun o => (pid, o)) q) = map (fun o => (pid, o)) (filter (fun o => o_qty o <? 0) q))
      by (rewrite filter_map_comm; reflexivity).
    assert (S2 : filter (fun po => negb (is_sell po)) (map (fun o => (pid, o)) q) =
                 map (fun o => (pid, o)) (filter (fun o => negb (o_qty o <? 0)) q)) by (rewrite filter_map_comm; reflexivity).
    rewrite S1, S2, <- map_app.
    set (bq := set_accts (set_now b t) [(pid, {| a_pf := pf1; a_q := [] |})]).
    assert (WI1 : within A pf1 []) by (split; [intros a I; apply WP; rewrite <- K1; exact I|intros o []]).
    destruct (execute_all_ok snap A (filter (fun o => o_qty o <? 0) q ++ filter (fun o => negb (o_qty o <? 0)) q) bq pf1 []
                eq_refl ST1 WI1) as (b1 & ef & pf2 & X & HA2 & D2 & ST2 & WI2).
    { intros o I. apply WQ. apply in_app_iff in I. destruct I as [I|I]; apply filter_In in I; tauto. }
    { exact QU. }
    exists b1, ef. split; [exact X|]. split; [exact D2|]. exists pf, q, pf2.
    split; [reflexivity|]. split; [exact HA2|]. split; [exact ST2|exact WI2].
  - eexists. eexists. split; [reflexivity|]. split; [reflexivity|]. exists pf, q, pf1.
    split; [reflexivity|]. split; [reflexivity|]. split; [exact ST1|].
    split; [intros a I; apply WP; rewrite <- K1; exact I|exact WQ].
Qed.
