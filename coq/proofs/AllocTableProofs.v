(** C14, third clause: the target-allocation table carries forward the weights of the latest rebalance. *)
From Coq Require Import ZArith QArith String Bool List Lia Sorted.
From QS Require Import theories.Num theories.Exchange theories.Sizer theories.PCM theories.AllocTable.
Import ListNotations.
Open Scope Z_scope.

Definition row_day_lt (a b : Z * weights) : Prop := day (fst a) < day (fst b).

(** nothing before the first rebalance *)
Lemma latest_row_none rows d :
  latest_row rows d = None <-> Forall (fun r => d < day (fst r)) rows.
Proof.
  induction rows as [|[t w] r IH]; cbn [latest_row]; [split; [constructor|reflexivity]|].
  destruct (latest_row r d) as [w'|] eqn:L.
  - split; [discriminate|]. intro F. inversion F as [|? ? _ F']; subst. apply IH in F'. discriminate.
  - destruct (day t <=? d) eqn:C.
    + split; [discriminate|]. intro F. inversion F as [|? ? H _]; subst. cbn [fst] in H. apply Z.leb_le in C. lia.
    + split; [|reflexivity]. intros _. constructor; [cbn [fst]; apply Z.leb_gt in C; lia|apply IH; reflexivity].
Qed.

(** rows are recorded in time order, at most one per day: the answer is THE row of the greatest date <= d *)
Theorem latest_row_spec rows d :
  StronglySorted row_day_lt rows -> forall w,
  (latest_row rows d = Some w <->
   exists t, In (t, w) rows /\ day t <= d /\ forall t' w', In (t', w') rows -> day t' <= d -> day t' <= day t).
Proof.
  induction rows as [|[t0 w0] r IH]; intros S w; cbn [latest_row].
  - split; [discriminate|intros (t & [] & _)].
  - inversion S as [|? ? S' F]; subst. specialize (IH S'). rewrite Forall_forall in F.
    destruct (latest_row r d) as [w1|] eqn:L.
    + destruct (proj1 (IH w1) eq_refl) as (t1 & I1 & Le1 & MAX1).
      assert (LT1 : day t0 < day t1) by (specialize (F _ I1); unfold row_day_lt in F; cbn [fst] in F; exact F).
      split.
      * intro H; inversion H; subst w1.
        exists t1. split; [right; exact I1|]. split; [exact Le1|]. intros t' w' [E|J] Le'.
        -- inversion E; subst. lia.
        -- eapply MAX1; eauto.
      * intros (t & [E|I] & Le & MAX).
        -- inversion E; subst. pose proof (MAX t1 w1 (or_intror I1) Le1) as M. lia.
        -- apply IH. exists t. split; [exact I|]. split; [exact Le|]. intros t' w' J Le'. apply (MAX t' w' (or_intror J) Le').
    + apply latest_row_none in L. rewrite Forall_forall in L. destruct (day t0 <=? d) eqn:C.
      * apply Z.leb_le in C. split.
        -- intro H; inversion H; subst. exists t0. split; [left; reflexivity|]. split; [exact C|].
           intros t' w' [E|J] Le'; [inversion E; lia|]. specialize (L _ J). cbn [fst] in L. lia.
        -- intros (t & [E|I] & Le & _); [inversion E; reflexivity|]. specialize (L _ I). cbn [fst] in L. lia.
      * apply Z.leb_gt in C. split; [discriminate|].
        intros (t & [E|I] & Le & _); [inversion E; subst; lia|]. specialize (L _ I). cbn [fst] in L. lia.
Qed.

(** the table: exactly the equity dates not before the burn-in date, in order, each with [latest_row];
    a cell is the latest row's own weight for that column - a column the latest row lacks stays missing
    even if an earlier row had it (whole rows are carried forward, not columns) *)
Theorem alloc_table_dates rows eq burn :
  map fst (alloc_table rows eq burn) =
  filter (fun d => match burn with Some b => day b <=? d | None => true end) eq.
Proof. unfold alloc_table. rewrite map_map. cbn [fst]. apply map_id. Qed.

Theorem alloc_table_rows rows eq burn d o :
  In (d, o) (alloc_table rows eq burn) -> o = latest_row rows d.
Proof.
  unfold alloc_table. intro I. apply in_map_iff in I. destruct I as (x & E & _). inversion E; subst. reflexivity.
Qed.

Theorem cell_is_the_latest_rows_own rows d col w :
  latest_row rows d = Some w -> alloc_cell rows d col = w_find col w.
Proof. unfold alloc_cell. intro L. rewrite L. reflexivity. Qed.

(** columns: every asset any row names, once *)
Lemma first_seen_spec l : forall seen a, In a (first_seen seen l) <-> (In a l /\ ~ In a seen).
Proof.
  induction l as [|x r IH]; intros seen a; cbn [first_seen]; [tauto|].
  destruct (existsb (String.eqb x) seen) eqn:E.
  - apply existsb_exists in E. destruct E as (y & I & Q). apply String.eqb_eq in Q. subst y.
    rewrite IH. split; [intros [H N]; split; [right; exact H|exact N]|].
    intros [[H|H] N]; [subst; contradiction|split; assumption].
  - assert (NX : ~ In x seen).
    { intro I. assert (T : existsb (String.eqb x) seen = true) by (apply existsb_exists; exists x; split; [exact I|apply String.eqb_refl]). congruence. }
    cbn [In]. rewrite IH. cbn [In]. split.
    + intros [H|[H N]]; [subst; split; [left; reflexivity|exact NX]|split; [right; exact H|tauto]].
    + intros [[H|H] N]; [left; exact H|]. destruct (string_dec x a) as [Q|Q]; [left; exact Q|right; split; [exact H|tauto]].
Qed.
Theorem alloc_columns_spec rows a :
  In a (alloc_columns rows) <-> exists t w, In (t, w) rows /\ In a (map fst w).
Proof.
  unfold alloc_columns. rewrite first_seen_spec, in_flat_map. split.
  - intros [([t w] & I & J) _]. exists t, w. split; assumption.
  - intros (t & w & I & J). split; [exists (t, w); split; assumption|intros []].
Qed.
