(** C17: performance statistics. *)
From Coq Require Import ZArith QArith Qfield String Bool List Lia Lqa Permutation.
From QS Require Import theories.Num theories.Portfolio theories.Signals theories.Stats
  proofs.QLemmas proofs.SignalProofs.
Import ListNotations.
Open Scope Q_scope.

(** * Cumulative returns telescope: cum_t == e_t / e_0 *)
(** the identity needs e0 <> 0 (a positive curve) *)
Lemma cum_from_rets acc prev e0 es :
  ~ e0 == 0 -> ~ prev == 0 -> Forall (fun e => ~ e == 0) es -> acc == prev / e0 ->
  Forall2 (fun c e => c == e / e0) (cum_from acc (rets_from prev es)) es.
Proof.
  intro N0. revert acc prev. induction es as [|e r IH]; intros acc prev NZ F A; simpl; [constructor|].
  inversion F as [|? ? Fe Fr]; subst.
  assert (C : qmul acc (qadd 1 (qsub (qdiv e prev) 1)) == e / e0).
  { qn. rewrite A. field. split; assumption. }
  constructor; [exact C|]. apply IH; assumption.
Qed.

Theorem cum_telescopes e0 es :
  ~ e0 == 0 -> Forall (fun e => ~ e == 0) es ->
  Forall2 (fun c e => c == e / e0) (cum_of (returns_of (e0 :: es))) (e0 :: es).
Proof.
  intros N0 F. unfold cum_of, returns_of. simpl cum_from.
  assert (C0 : qmul 1 (qadd 1 0) == e0 / e0) by (qn; field; exact N0).
  constructor; [exact C0|]. apply cum_from_rets; auto.
Qed.

(** * Running maximum *)
Lemma qmaxq_spec a b : (qmaxq a b == a \/ qmaxq a b == b) /\ a <= qmaxq a b /\ b <= qmaxq a b.
Proof.
  unfold qmaxq. destruct (qleb a b) eqn:E.
  - apply qleb_le in E. split; [right; reflexivity|]. split; [exact E|apply Qle_refl].
  - apply qleb_gt in E. split; [left; reflexivity|]. split; [apply Qle_refl|apply Qlt_le_weak; exact E].
Qed.

Definition is_max (m : Q) (l : list Q) : Prop := (exists x, In x l /\ m == x) /\ Forall (fun x => x <= m) l.

Lemma fold_max_spec l : forall h, is_max (fold_left qmaxq l h) (h :: l).
Proof.
  induction l as [|x r IH]; intro h; simpl.
  - split; [exists h; split; [left; reflexivity|reflexivity]|constructor; [apply Qle_refl|constructor]].
  - destruct (IH (qmaxq h x)) as [(y & Iy & Ey) F]. destruct (qmaxq_spec h x) as ([M|M] & L1 & L2).
    + split.
      * destruct Iy as [Iy|Iy]; [exists h; split; [left; reflexivity|rewrite Ey, <- Iy; exact M]|exists y; split; [right; right; exact Iy|exact Ey]].
      * inversion F as [|? ? F1 F2]; subst. constructor; [eapply Qle_trans; eauto|]. constructor; [eapply Qle_trans; eauto|exact F2].
    + split.
      * destruct Iy as [Iy|Iy]; [exists x; split; [right; left; reflexivity|rewrite Ey, <- Iy; exact M]|exists y; split; [right; right; exact Iy|exact Ey]].
      * inversion F as [|? ? F1 F2]; subst. constructor; [eapply Qle_trans; eauto|]. constructor; [eapply Qle_trans; eauto|exact F2].
Qed.

(** the high-water mark at position t is the maximum of the seed and the first t+1 observations *)
Lemma hwm_nth cs : forall h t,
  (t < length cs)%nat -> nth t (hwm_from h cs) 0 = fold_left qmaxq (firstn (S t) cs) h.
Proof.
  induction cs as [|c r IH]; intros h t L; [simpl in L; lia|].
  destruct t as [|t]; [destruct r; reflexivity|].
  simpl in L. change (hwm_from h (c :: r)) with (qmaxq h c :: hwm_from (qmaxq h c) r).
  change (nth (S t) (qmaxq h c :: hwm_from (qmaxq h c) r) 0) with (nth t (hwm_from (qmaxq h c) r) 0).
  rewrite IH by lia. reflexivity.
Qed.

Theorem hwm_is_running_max c0 cs t :
  (t < length cs)%nat ->
  is_max (nth t (hwm_from c0 cs) 0) (c0 :: firstn (S t) cs).
Proof. intro L. rewrite hwm_nth by exact L. apply fold_max_spec. Qed.

(** the repaired drawdown: 0 at the first date, then (hwm - value) / hwm = 1 - value / hwm with the
    hwm including the first observation *)
Lemma drawdowns_shape c0 cs :
  drawdowns false (c0 :: cs) = 0 :: dd_tail (hwm_from c0 cs) cs.
Proof. reflexivity. Qed.
Lemma dd_tail_nth hs cs t :
  (t < length cs)%nat -> length hs = length cs ->
  nth t (dd_tail hs cs) 0 == (nth t hs 0 - nth t cs 0) / nth t hs 0.
Proof.
  revert hs t. induction cs as [|c r IH]; intros hs t L E; [simpl in L; lia|].
  destruct hs as [|h ht]; [discriminate|]. destruct t as [|t]; simpl.
  - qn. reflexivity.
  - apply IH; simpl in *; lia.
Qed.
Lemma hwm_from_length h cs : length (hwm_from h cs) = length cs.
Proof. revert h. induction cs as [|c r IH]; intro h; simpl; [reflexivity|]. rewrite IH. reflexivity. Qed.

Theorem drawdown_def c0 cs t :
  (t < length cs)%nat ->
  let h := nth t (hwm_from c0 cs) 0 in
  nth (S t) (drawdowns false (c0 :: cs)) 0 == (h - nth t cs 0) / h /\
  is_max h (c0 :: firstn (S t) cs).
Proof.
  intros L h. split.
  - rewrite drawdowns_shape. simpl nth. apply dd_tail_nth; [exact L|apply hwm_from_length].
  - apply hwm_is_running_max. exact L.
Qed.
Lemma drawdown_first c0 cs : nth 0 (drawdowns false (c0 :: cs)) 1 = 0.
Proof. reflexivity. Qed.

(** maximum drawdown is the maximum of the drawdown series *)
Theorem maxdd_def x l : is_max (qmax_list (x :: l)) (x :: l).
Proof. unfold qmax_list. apply fold_max_spec. Qed.

(** * Longest under-water run *)
Lemma longest_run_from_ge l : forall cur best,
  (Nat.max cur best <= longest_run_from cur best l)%nat.
Proof.
  induction l as [|x r IH]; intros cur best; simpl; [lia|].
  destruct (qeqb x 0); [specialize (IH 0%nat (Nat.max cur best))|specialize (IH (S cur) best)]; lia.
Qed.
Lemma longest_run_from_run run : forall cur best rest,
  Forall (fun x => ~ x == 0) run ->
  (cur + length run <= longest_run_from cur best (run ++ rest))%nat.
Proof.
  induction run as [|x r IH]; intros cur best rest F; simpl.
  - pose proof (longest_run_from_ge rest cur best). lia.
  - inversion F as [|? ? Fx Fr]; subst.
    assert (E : qeqb x 0 = false) by (apply qeqb_neq; exact Fx). rewrite E.
    specialize (IH (S cur) best rest Fr). lia.
Qed.
Theorem duration_bounds_every_run pre run post :
  Forall (fun x => ~ x == 0) run -> (length run <= longest_run (pre ++ run ++ post))%nat.
Proof.
  intro F. unfold longest_run. generalize 0%nat at 1 as cur. generalize 0%nat as best.
  induction pre as [|x r IH]; intros best cur; simpl.
  - pose proof (longest_run_from_run run cur best post F). lia.
  - destruct (qeqb x 0); apply IH.
Qed.
(** ... and it is attained: the result is the length of some all-non-zero contiguous run *)
Lemma longest_run_from_attained l : forall cur best,
  longest_run_from cur best l = Nat.max cur best \/
  (exists pre run post, l = pre ++ run ++ post /\ Forall (fun x => ~ x == 0) run /\
                        (longest_run_from cur best l = length run \/
                         (pre = [] /\ longest_run_from cur best l = cur + length run)))%nat.
Proof.
  induction l as [|x r IH]; intros cur best; simpl; [left; reflexivity|].
  destruct (qeqb x 0) eqn:E.
  - destruct (IH 0%nat (Nat.max cur best)) as [H|(pre & run & post & L & F & [H|[P H]])].
    + left. rewrite H. lia.
    + right. exists (x :: pre), run, post. subst. split; [reflexivity|]. split; [exact F|]. left. exact H.
    + right. exists (x :: pre), run, post. subst. split; [reflexivity|]. split; [exact F|]. left. cbn [plus] in H. exact H.
  - apply qeqb_neq in E.
    destruct (IH (S cur) best) as [H|(pre & run & post & L & F & [H|[P H]])].
    + destruct (Nat.le_gt_cases (S cur) best) as [LE|GT].
      * left. rewrite H. lia.
      * right. exists [], [x], r. split; [reflexivity|]. split; [constructor; [exact E|constructor]|].
        right. split; [reflexivity|]. rewrite H. cbn [length]. lia.
    + right. exists (x :: pre), run, post. subst. split; [reflexivity|]. split; [exact F|]. left. exact H.
    + right. subst pre. exists [], (x :: run), post. subst. split; [reflexivity|].
      split; [constructor; assumption|]. right. split; [reflexivity|]. rewrite H. cbn [length]. lia.
Qed.

(** * Aggregates compound to the total *)
Lemma prod_plain_app a b : prod_plain (a ++ b) == prod_plain a * prod_plain b.
Proof. induction a as [|x r IH]; simpl; [ring|]. rewrite IH. ring. Qed.

Lemma prod_partition (f : Z * Q -> bool) (g : Q -> Q) l :
  prod_plain (map g (map snd (filter f l))) * prod_plain (map g (map snd (filter (fun x => negb (f x)) l))) ==
  prod_plain (map g (map snd l)).
Proof.
  induction l as [|x r IH]; simpl; [ring|]. destruct (f x); simpl; rewrite <- IH; ring.
Qed.

Lemma compound_ok rs : 1 + compound rs == prod_plain (map (fun r => 1 + r) rs).
Proof.
  unfold compound. rewrite qsub_ok, qprodr_ok.
  assert (E : prod_plain (map (fun r => qadd 1 r) rs) == prod_plain (map (fun r => 1 + r) rs)).
  { induction rs as [|x r IH]; simpl; [reflexivity|]. rewrite IH, qadd_ok. reflexivity. }
  rewrite E. ring.
Qed.

Lemma filter_length_le {A} (f : A -> bool) l : (length (filter f l) <= length l)%nat.
Proof. induction l as [|x r IH]; simpl; [lia|]. destruct (f x); simpl; lia. Qed.

Theorem aggregates_compound key : forall fuel dated,
  (length dated <= fuel)%nat ->
  prod_plain (map (fun g => 1 + compound (snd g)) (group_by fuel key dated)) ==
  prod_plain (map (fun r => 1 + r) (map snd dated)).
Proof.
  induction fuel as [|f IH]; intros dated L.
  - destruct dated; [reflexivity|simpl in L; lia].
  - destruct dated as [|[d r] rest]; [reflexivity|]. simpl in L.
    cbn [group_by map snd prod_plain fst].
    rewrite compound_ok. cbn [map prod_plain].
    rewrite IH by (pose proof (filter_length_le (fun x => negb (Z.eqb (key (fst x)) (key d))) rest); lia).
    rewrite <- (prod_partition (fun x => Z.eqb (key (fst x)) (key d)) (fun r => 1 + r) rest). ring.
Qed.

(** * Scale invariance: multiplying the equity by k <> 0 leaves the returns - hence every
      statistic, which are all functions of the returns and the dates - identical *)
Lemma qdiv_scale k e prev : ~ k == 0 -> (k * e) / (k * prev) == e / prev.
Proof.
  intro NK. unfold Qdiv. rewrite Qinv_mult_distr.
  assert (E : k * e * (/ k * / prev) == e * / prev * (k * / k)) by ring.
  rewrite E, Qmult_inv_r by exact NK. ring.
Qed.

Lemma rets_from_scale k prev es :
  ~ k == 0 -> rets_from (k * prev) (map (Qmult k) es) = rets_from prev es.
Proof.
  intro NK. revert prev. induction es as [|e r IH]; intro prev; simpl; [reflexivity|].
  rewrite IH. f_equal. unfold qsub, qdiv. apply Qred_complete.
  rewrite !Qred_correct, (qdiv_scale k e prev NK). reflexivity.
Qed.

Theorem returns_scale_invariant k es : ~ k == 0 -> returns_of (map (Qmult k) es) = returns_of es.
Proof.
  intro NK. destruct es as [|e0 r]; [reflexivity|]. simpl. rewrite rets_from_scale by exact NK. reflexivity.
Qed.

Theorem statistics_scale_invariant seed0 moments k curve :
  ~ k == 0 ->
  compute seed0 moments (map (fun de => (fst de, k * snd de)) curve) = compute seed0 moments curve.
Proof.
  intro NK. unfold compute. rewrite !map_map. simpl.
  assert (E : map (fun x => k * snd x) curve = map (Qmult k) (map snd curve)) by (rewrite map_map; reflexivity).
  rewrite E, (returns_scale_invariant k (map snd curve) NK).
  assert (D : map (fun x : Z * Q => fst x) curve = map fst curve) by reflexivity. rewrite D. reflexivity.
Qed.

(** mean and population variance as plain formulas *)
Theorem moments_def l :
  mean l == qsum l / inject_Z (Z.of_nat (length l)) /\ popvar l == popvar_plain l.
Proof. split; [apply mean_ok|apply popvar_ok]. Qed.
