(** C08 refinement, part 3: the single-portfolio broker of a session against the rules simulator's
    state (cash, holdings, pending orders): executions, marking, clock updates. *)
From Coq Require Import ZArith QArith Qround Qabs String Bool List Lia Lqa Permutation Sorted.
From QS Require Import theories.Num theories.Position theories.Portfolio theories.Fees theories.Exchange
  theories.Broker theories.Sizer theories.PCM theories.Backtest theories.Spec
  proofs.QLemmas proofs.Ledger proofs.Fills proofs.PnL proofs.Holdings proofs.SpecLists.
Import ListNotations.
Open Scope Z_scope.

(** * Holdings as the rules see them *)
Definition hold_view (ps : positions) : list (string * Z) :=
  map (fun ap => (fst ap, Qfloor (pos_net (snd ap)))) ps.

Definition whole (p : position) : Prop :=
  (pos_net p == inject_Z (Qfloor (pos_net p)))%Q /\ Qfloor (pos_net p) <> 0.
Definition integral (ps : positions) : Prop := Forall (fun ap => whole (snd ap)) ps.
Definition priced (snap : snapshot) (ps : positions) : Prop :=
  Forall (fun ap => snap_find (fst ap) snap = Some (p_price (snd ap))) ps.

Lemma pos_find_in a p ps : pos_find a ps = Some p -> In (a, p) ps.
Proof.
  induction ps as [|[b x] r IH]; simpl; [discriminate|].
  destruct (String.eqb a b) eqn:E; intro H.
  - apply String.eqb_eq in E. inversion H; subst. left; reflexivity.
  - right. apply IH. exact H.
Qed.
Lemma pos_find_of_in a p ps : NoDup (map fst ps) -> In (a, p) ps -> pos_find a ps = Some p.
Proof.
  induction ps as [|[b x] r IH]; simpl; intros ND I; [contradiction|].
  inversion ND as [|? ? NI ND']; subst. destruct I as [I|I].
  - inversion I; subst. rewrite String.eqb_refl. reflexivity.
  - destruct (String.eqb a b) eqn:E.
    + apply String.eqb_eq in E. subst. exfalso. apply NI. apply in_map_iff. exists (b, p). auto.
    + apply IH; assumption.
Qed.

Lemma forall_pos_set (P : string * position -> Prop) a p ps :
  Forall P ps -> P (a, p) -> Forall P (pos_set a p ps).
Proof.
  induction ps as [|[b x] r IH]; simpl; intros F H.
  - constructor; [exact H|constructor].
  - inversion F as [|? ? Hx Fr]; subst. destruct (String.eqb a b) eqn:E.
    + apply String.eqb_eq in E. subst b. constructor; assumption.
    + constructor; [exact Hx|apply IH; assumption].
Qed.
Lemma forall_pos_del (P : string * position -> Prop) a ps : Forall P ps -> Forall P (pos_del a ps).
Proof.
  induction ps as [|[b x] r IH]; simpl; intro F; [constructor|].
  inversion F as [|? ? Hx Fr]; subst. destruct (String.eqb a b); [exact Fr|]. constructor; [exact Hx|apply IH; exact Fr].
Qed.

Lemma forall_del_set (P : string * position -> Prop) a p0 p' ps :
  pos_find a ps = Some p0 -> Forall P ps -> Forall P (pos_del a (pos_set a p' ps)).
Proof.
  induction ps as [|[b x] r IH]; cbn [pos_find pos_set pos_del]; intros F H; [discriminate|].
  inversion H as [|? ? Hx Hr]; subst.
  destruct (String.eqb a b) eqn:E; cbn [pos_del]; rewrite E; [exact Hr|].
  constructor; [exact Hx|apply IH; assumption].
Qed.

Lemma hold_of_view a ps :
  hold_of a (hold_view ps) = match pos_find a ps with Some p => Qfloor (pos_net p) | None => 0 end.
Proof.
  induction ps as [|[b x] r IH]; simpl; [reflexivity|]. destruct (String.eqb a b); [reflexivity|exact IH].
Qed.

Lemma view_set_found a p0 p' ps n :
  pos_find a ps = Some p0 -> Qfloor (pos_net p') = n -> n <> 0 ->
  hold_view (pos_set a p' ps) = hold_set a n (hold_view ps).
Proof.
  intros F N NZ. subst n. apply Z.eqb_neq in NZ. unfold hold_view.
  induction ps as [|[b x] r IH]; cbn [pos_find pos_set map hold_set fst snd] in *; [discriminate|].
  destruct (String.eqb a b) eqn:E; cbn [map fst snd].
  - rewrite NZ. reflexivity.
  - rewrite IH; [reflexivity|exact F].
Qed.
Lemma view_set_same a p0 p' ps :
  pos_find a ps = Some p0 -> pos_net p' = pos_net p0 -> hold_view (pos_set a p' ps) = hold_view ps.
Proof.
  intros F N. unfold hold_view.
  induction ps as [|[b x] r IH]; cbn [pos_find pos_set map fst snd] in *; [discriminate|].
  destruct (String.eqb a b) eqn:E; cbn [map fst snd].
  - inversion F; subst. rewrite N. reflexivity.
  - rewrite IH; [reflexivity|exact F].
Qed.
Lemma view_del_found a p0 p' ps :
  pos_find a ps = Some p0 -> hold_view (pos_del a (pos_set a p' ps)) = hold_set a 0 (hold_view ps).
Proof.
  intros F. unfold hold_view.
  induction ps as [|[b x] r IH]; cbn [pos_find pos_set pos_del map hold_set fst snd] in *; [discriminate|].
  destruct (String.eqb a b) eqn:E; cbn [pos_del map fst snd]; rewrite E.
  - reflexivity.
  - cbn [map fst snd]. rewrite IH; [reflexivity|exact F].
Qed.
Lemma view_set_new a p ps n :
  pos_find a ps = None -> Qfloor (pos_net p) = n -> n <> 0 ->
  hold_view (pos_set a p ps) = hold_set a n (hold_view ps).
Proof.
  intros F N NZ. subst n. apply Z.eqb_neq in NZ. unfold hold_view.
  induction ps as [|[b x] r IH]; cbn [pos_find pos_set map hold_set fst snd] in *.
  - rewrite NZ. reflexivity.
  - destruct (String.eqb a b) eqn:E; [discriminate|]. cbn [map fst snd]. rewrite IH; [reflexivity|exact F].
Qed.

Lemma floor_of_int x n : (x == inject_Z n)%Q -> Qfloor x = n.
Proof. intro H. rewrite H. apply Qfloor_Z. Qed.

Lemma int_effective q id a t p c : q <> 0 -> effective (mkTxn a (inject_Z q) t p c id).
Proof.
  intro NZ. unfold effective. simpl. destruct (Z_lt_le_dec q 0) as [L|L].
  - left. change 0%Q with (inject_Z 0). rewrite <- Zlt_Qlt. exact L.
  - right. change 1%Q with (inject_Z 1). rewrite <- Zle_Qle. lia.
Qed.

(** * One execution *)
Section Exec.
  Variable snap : snapshot.
  Variable fee : fee_model.

  Definition sfill_of_tx (tx : txn) (q : Z) : sfill := SFill (t_dt tx) (t_asset tx) q (t_price tx) (t_comm tx).

  Lemma execute_sim b pf q0 st id a qty b1 ef :
    b_accts b = [(pid, mkAcct pf q0)] -> b_fee b = fee ->
    (pf_cash pf == st_cash st)%Q -> hold_view (pf_pos pf) = st_hold st ->
    integral (pf_pos pf) -> NoDup (map fst (pf_pos pf)) -> priced snap (pf_pos pf) ->
    qty <> 0 ->
    execute (snap_bidask snap) b pid (mkOrd id a qty) = (b1, Ok tt, ef) ->
    exists pf1 st1 p comm,
      fill_one fee (b_dt b) snap st (a, qty) = Some (st1, SFill (b_dt b) a qty p comm) /\
      ef = [Fill pid (mkTxn a (inject_Z qty) (b_dt b) p comm id)] /\
      b_accts b1 = [(pid, mkAcct pf1 q0)] /\ b_fee b1 = fee /\ b_dt b1 = b_dt b /\
      (pf_cash pf1 == st_cash st1)%Q /\ hold_view (pf_pos pf1) = st_hold st1 /\
      integral (pf_pos pf1) /\ NoDup (map fst (pf_pos pf1)) /\ priced snap (pf_pos pf1) /\
      st_pending st1 = st_pending st.
  Proof.
    intros HA HF HC HV HI HN HP NZ.
    unfold execute, snap_bidask. cbn [o_asset o_qty o_id].
    destruct (snap_find a snap) as [p|] eqn:SF; [|intro X; inversion X].
    assert (PR : (if 0 <=? qty then p else p) = p) by (destruct (0 <=? qty); reflexivity). rewrite PR.
    rewrite HA, HF. cbn [acct_find]. change (String.eqb pid pid) with true. cbn iota. cbn [a_pf a_q].
    set (comm := Qred (fee_total fee (inject_Z (round_he (p * inject_Z qty))))).
    set (tx := mkTxn a (inject_Z qty) (b_dt b) p comm id).
    assert (EF : effective tx) by (apply int_effective; exact NZ).
    unfold pf_transact. destruct (t_dt tx <? pf_dt pf); [intro X; inversion X|].
    unfold ph_transact. cbn [t_asset tx].
    assert (FO : fill_one fee (b_dt b) snap st (a, qty) =
                 Some (mkS (Qred (st_cash st - (p * inject_Z qty + comm)))
                           (hold_set a (hold_of a (st_hold st) + qty) (st_hold st)) (st_pending st),
                       SFill (b_dt b) a qty p comm)).
    { unfold fill_one. cbn [fst snd]. rewrite price_of_w_find, <- snap_find_w_find, SF. reflexivity. }
    assert (CASH : forall c, (c == pf_cash pf)%Q ->
              (qsub c (qadd (qmul (t_price tx) (t_qty tx)) (t_comm tx)) == Qred (st_cash st - (p * inject_Z qty + comm)))%Q).
    { intros c Hc. qn. rewrite Hc, HC. reflexivity. }
    destruct (pos_find a (pf_pos pf)) as [p0|] eqn:F.
    - destruct (pos_transact p0 tx) as [p' [u|e]] eqn:PT; [|intro X; inversion X].
      destruct u. destruct (pos_transact_net _ _ _ EF PT) as [NET PRICE]. cbn [t_qty t_price tx] in NET, PRICE.
      assert (W0 : whole p0).
      { unfold integral in HI. rewrite Forall_forall in HI. apply (HI (a, p0)). apply pos_find_in. exact F. }
      destruct W0 as [W0 _].
      assert (NET' : (pos_net p' == inject_Z (Qfloor (pos_net p0) + qty))%Q).
      { rewrite NET, W0 at 1. rewrite inject_Z_plus. reflexivity. }
      assert (FL : Qfloor (pos_net p') = Qfloor (pos_net p0) + qty) by (apply floor_of_int; exact NET').
      assert (HO : hold_of a (st_hold st) = Qfloor (pos_net p0)) by (rewrite <- HV, hold_of_view, F; reflexivity).
      destruct (qeqb (pos_net p') 0) eqn:ZERO.
      + intro X; inversion X; subst b1 ef; clear X.
        apply qeqb_eq in ZERO.
        assert (Z0 : Qfloor (pos_net p0) + qty = 0).
        { rewrite <- FL. apply floor_of_int. exact ZERO. }
        eexists. eexists. exists p, comm. split; [exact FO|]. split; [reflexivity|].
        split; [reflexivity|]. split; [exact HF|]. split; [reflexivity|].
        cbn [pf_cash pf_pos st_cash st_hold st_pending].
        split; [apply CASH; reflexivity|]. split.
        { rewrite HO, Z0, <- HV. apply (view_del_found a p0). exact F. }
        split; [apply (forall_del_set _ a p0); [exact F|exact HI]|].
        split; [apply nodup_del; apply nodup_set; exact HN|].
        split; [|reflexivity]. apply (forall_del_set _ a p0); [exact F|exact HP].
      + intro X; inversion X; subst b1 ef; clear X.
        apply qeqb_neq in ZERO.
        assert (NZ' : Qfloor (pos_net p0) + qty <> 0).
        { intro Y. apply ZERO. rewrite NET', Y. reflexivity. }
        eexists. eexists. exists p, comm. split; [exact FO|]. split; [reflexivity|].
        split; [reflexivity|]. split; [exact HF|]. split; [reflexivity|].
        cbn [pf_cash pf_pos st_cash st_hold st_pending].
        split; [apply CASH; reflexivity|]. split.
        { rewrite HO, <- HV. apply (view_set_found a p0); [exact F|exact FL|exact NZ']. }
        split; [apply forall_pos_set; [exact HI|]|].
        { simpl. split; [rewrite FL; exact NET'|]. rewrite FL. exact NZ'. }
        split; [apply nodup_set; exact HN|].
        split; [|reflexivity]. apply forall_pos_set; [exact HP|]. simpl. rewrite PRICE. exact SF.
    - destruct (pos_open_net tx) as [NET PRICE]. cbn [t_qty t_price tx] in NET, PRICE.
      assert (FL : Qfloor (pos_net (pos_open tx)) = qty) by (apply floor_of_int; exact NET).
      assert (HO : hold_of a (st_hold st) = 0) by (rewrite <- HV, hold_of_view, F; reflexivity).
      assert (ZERO : qeqb (pos_net (pos_open tx)) 0 = false).
      { apply qeqb_neq. intro Y. apply NZ. rewrite <- FL. apply floor_of_int. exact Y. }
      rewrite ZERO. intro X; inversion X; subst b1 ef; clear X.
      eexists. eexists. exists p, comm. split; [exact FO|]. split; [reflexivity|].
      split; [reflexivity|]. split; [exact HF|]. split; [reflexivity|].
      cbn [pf_cash pf_pos st_cash st_hold st_pending].
      split; [apply CASH; reflexivity|]. split.
      { rewrite HO, <- HV. simpl. apply view_set_new; [exact F|exact FL|exact NZ]. }
      split; [apply forall_pos_set; [exact HI|]|].
      { simpl. split; [rewrite FL; exact NET|]. rewrite FL. exact NZ. }
      split; [apply nodup_set; exact HN|].
      split; [|reflexivity]. apply forall_pos_set; [exact HP|]. simpl. rewrite PRICE. exact SF.
  Qed.
End Exec.

(** * The simulation relation (single portfolio [pid]) *)
Definition Core (snap : snapshot) (fee : fee_model) (b : broker) (pf : portfolio) (q0 : list order) (st : sstate) : Prop :=
  b_accts b = [(pid, mkAcct pf q0)] /\ b_fee b = fee /\
  (pf_cash pf == st_cash st)%Q /\ hold_view (pf_pos pf) = st_hold st /\
  integral (pf_pos pf) /\ NoDup (map fst (pf_pos pf)) /\ priced snap (pf_pos pf).

Definition fillrec : Type := (Z * string * Q * Q * Q)%type.
Definition eff_view (ef : list effect) : list fillrec :=
  flat_map (fun e => match e with Fill _ tx => [(t_dt tx, t_asset tx, t_qty tx, t_price tx, t_comm tx)] | _ => [] end) ef.
Definition sfill_view (f : sfill) : fillrec :=
  match f with SFill t a q p c => (t, a, inject_Z q, p, c) end.

Lemma eff_view_app a b : eff_view (a ++ b) = eff_view a ++ eff_view b.
Proof. unfold eff_view. apply flat_map_app. Qed.

Definition oview (o : order) : string * Z := (o_asset o, o_qty o).

Section ExecAll.
  Variable snap : snapshot.
  Variable fee : fee_model.

  Lemma execute_core b pf q0 st o b1 ef :
    Core snap fee b pf q0 st -> o_qty o <> 0 ->
    execute (snap_bidask snap) b pid o = (b1, Ok tt, ef) ->
    exists pf1 st1 f,
      fill_one fee (b_dt b) snap st (oview o) = Some (st1, f) /\ eff_view ef = [sfill_view f] /\
      Core snap fee b1 pf1 q0 st1 /\ b_dt b1 = b_dt b /\ st_pending st1 = st_pending st.
  Proof.
    intros (HA & HF & HC & HV & HI & HN & HP) NZ X. destruct o as [id a qty]. cbn [o_qty] in NZ.
    destruct (execute_sim snap fee b pf q0 st id a qty b1 ef HA HF HC HV HI HN HP NZ X)
      as (pf1 & st1 & p & comm & FO & EF & A1 & F1 & D1 & C1 & V1 & I1 & N1 & P1 & PE).
    exists pf1, st1, (SFill (b_dt b) a qty p comm). split; [exact FO|]. split; [rewrite EF; reflexivity|].
    split; [repeat split; assumption|]. split; assumption.
  Qed.

  Lemma execute_all_core os : forall b pf q0 st b1 ef,
    Core snap fee b pf q0 st -> Forall (fun o => o_qty o <> 0) os ->
    execute_all (snap_bidask snap) b (map (fun o => (pid, o)) os) = (b1, Ok tt, ef) ->
    exists pf1 st1 fs,
      Spec.fill_all fee (b_dt b) snap st (map oview os) = Some (st1, fs) /\ eff_view ef = map sfill_view fs /\
      Core snap fee b1 pf1 q0 st1 /\ b_dt b1 = b_dt b /\ st_pending st1 = st_pending st.
  Proof.
    induction os as [|o r IH]; intros b pf q0 st b1 ef HC NZ; cbn [map execute_all Spec.fill_all].
    - intro X; inversion X; subst. exists pf, st, []. repeat split; try reflexivity; apply HC.
    - inversion NZ as [|? ? NZo NZr]; subst.
      destruct (execute (snap_bidask snap) b pid o) as [[bx [u|e]] ex] eqn:X1; [|intro X; inversion X].
      destruct u.
      destruct (execute_all (snap_bidask snap) bx (map (fun o0 => (pid, o0)) r)) as [[b2 rr] e2] eqn:X2.
      intro X; inversion X; subst b2 rr ef; clear X.
      destruct (execute_core _ _ _ _ _ _ _ HC NZo X1) as (pfx & stx & f & FO & EV & CX & DX & PX).
      destruct (IH _ _ _ _ _ _ CX NZr X2) as (pf1 & st1 & fs & FA & EV2 & C1 & D1 & P1).
      exists pf1, st1, (f :: fs). rewrite FO. rewrite DX in FA. rewrite FA.
      split; [reflexivity|]. split; [rewrite eff_view_app, EV, EV2; reflexivity|].
      split; [exact C1|]. split; [congruence|congruence].
  Qed.
End ExecAll.

(** * Marking *)
Definition Core0 (fee : fee_model) (b : broker) (pf : portfolio) (q0 : list order) (st : sstate) : Prop :=
  b_accts b = [(pid, mkAcct pf q0)] /\ b_fee b = fee /\
  (pf_cash pf == st_cash st)%Q /\ hold_view (pf_pos pf) = st_hold st /\
  integral (pf_pos pf) /\ NoDup (map fst (pf_pos pf)).
Lemma core_split snap fee b pf q0 st : Core snap fee b pf q0 st <-> Core0 fee b pf q0 st /\ priced snap (pf_pos pf).
Proof. unfold Core, Core0. tauto. Qed.

Lemma pf_mark_core pf a p0 m t pf1 :
  pos_find a (pf_pos pf) = Some p0 -> pf_mark pf a m t = (pf1, Ok tt) ->
  exists p', pf_pos pf1 = pos_set a p' (pf_pos pf) /\ pos_net p' = pos_net p0 /\ p_price p' = m /\
             pf_cash pf1 = pf_cash pf.
Proof.
  intro F. unfold pf_mark. rewrite F. destruct (qltb m 0); [intro X; inversion X|].
  destruct (t <? pf_dt pf); [intro X; inversion X|].
  unfold pos_update_price. destruct (t <? p_dt p0); [intro X; inversion X|].
  destruct (qleb m 0); intro X; inversion X; subst; clear X.
  eexists. split; [reflexivity|]. split; [reflexivity|]. split; reflexivity.
Qed.

Section Mark.
  Variable snap : snapshot.

  Lemma mark_assets_core t : forall assets pf pf1,
    (forall a, In a assets -> In a (map fst (pf_pos pf))) ->
    mark_assets (snap_mid snap) pf assets t = (pf1, Ok tt) ->
    pf_cash pf1 = pf_cash pf /\ hold_view (pf_pos pf1) = hold_view (pf_pos pf) /\
    map fst (pf_pos pf1) = map fst (pf_pos pf) /\
    (integral (pf_pos pf) -> integral (pf_pos pf1)) /\
    (forall a p, In a assets -> pos_find a (pf_pos pf1) = Some p -> snap_find a snap = Some (p_price p)).
  Proof.
    induction assets as [|a r IH]; intros pf pf1 SUB; cbn [mark_assets].
    - intro X; inversion X; subst. repeat split; auto. intros a p [].
    - unfold snap_mid at 1. destruct (snap_find a snap) as [m|] eqn:SF; [|intro X; inversion X].
      destruct (pf_mark pf a m t) as [pfx [u|e]] eqn:M; [|intro X; inversion X]. destruct u.
      assert (IA : In a (map fst (pf_pos pf))) by (apply SUB; left; reflexivity).
      destruct (pos_find a (pf_pos pf)) as [p0|] eqn:F; [|apply pos_find_none_notin in F; contradiction].
      destruct (pf_mark_core _ _ _ _ _ _ F M) as (p' & PS & NET & PR & CA).
      assert (KEYS : map fst (pf_pos pfx) = map fst (pf_pos pf)) by (rewrite PS, keys_set, F; reflexivity).
      intro X. destruct (IH pfx pf1) as (C1 & V1 & K1 & I1 & M1); [|exact X|].
      { intros x I. rewrite KEYS. apply SUB. right. exact I. }
      split; [congruence|]. split; [rewrite V1, PS; apply (view_set_same a p0); assumption|].
      split; [congruence|]. split.
      { intro HI. apply I1. rewrite PS. apply forall_pos_set; [exact HI|]. simpl.
        unfold integral in HI. rewrite Forall_forall in HI. specialize (HI (a, p0) (pos_find_in _ _ _ F)).
        unfold whole in *. simpl in HI. rewrite NET. exact HI. }
      intros x p [I|I] FX.
      + subst x. destruct (in_dec string_dec a r) as [J|J]; [apply (M1 a p J FX)|].
        assert (UN : forall assets pfa pfb, ~ In a assets -> mark_assets (snap_mid snap) pfa assets t = (pfb, Ok tt) ->
                     pos_find a (pf_pos pfb) = pos_find a (pf_pos pfa)).
        { clear. induction assets as [|y s IHs]; intros pfa pfb NI; cbn [mark_assets].
          - intro X; inversion X; reflexivity.
          - destruct (snap_mid snap t y) as [m|]; [|intro X; inversion X].
            destruct (pf_mark pfa y m t) as [pfy [u|e]] eqn:M; [|intro X; inversion X].
            intro X. rewrite (IHs pfy pfb); [|intro H; apply NI; right; exact H|exact X].
            assert (NE : String.eqb a y = false) by (apply String.eqb_neq; intro H; apply NI; left; auto).
            revert M. unfold pf_mark. destruct (pos_find y (pf_pos pfa)) as [py|]; [|intro Y; inversion Y; reflexivity].
            destruct (qltb m 0); [intro Y; inversion Y|]. destruct (t <? pf_dt pfa); [intro Y; inversion Y|].
            destruct (pos_update_price py m t) as [py' ry]. intro Y; inversion Y; subst. cbn [pf_pos].
            apply pos_find_set_other. exact NE. }
        rewrite (UN r pfx pf1 J X), PS, pos_find_set_same in FX. inversion FX as [EP]. rewrite <- EP, PR. exact SF.
      + apply (M1 x p I FX).
  Qed.

  Lemma mark_all_priced t pf pf1 :
    NoDup (map fst (pf_pos pf)) ->
    mark_assets (snap_mid snap) pf (map fst (pf_pos pf)) t = (pf1, Ok tt) ->
    pf_cash pf1 = pf_cash pf /\ hold_view (pf_pos pf1) = hold_view (pf_pos pf) /\
    NoDup (map fst (pf_pos pf1)) /\ (integral (pf_pos pf) -> integral (pf_pos pf1)) /\ priced snap (pf_pos pf1).
  Proof.
    intros ND X. destruct (mark_assets_core t _ _ _ (fun a I => I) X) as (C & V & K & I & M).
    split; [exact C|]. split; [exact V|]. split; [rewrite K; exact ND|]. split; [exact I|].
    unfold priced. apply Forall_forall. intros [a p] J. simpl.
    apply (M a p); [rewrite <- K; apply in_map_iff; exists (a, p); auto|].
    apply pos_find_of_in; [rewrite K; exact ND|exact J].
  Qed.
End Mark.

(** * Clock updates *)
Lemma filter_map_comm {A B} (f : B -> bool) (g : A -> B) l :
  filter f (map g l) = map g (filter (fun x => f (g x)) l).
Proof. induction l as [|x r IH]; simpl; [reflexivity|]. destruct (f (g x)); simpl; rewrite IH; reflexivity. Qed.

Section Update.
  Variable snap : snapshot.
  Variable fee : fee_model.

  Lemma update_marks b pf q0 st t l1 :
    Core0 fee b pf q0 st ->
    mark_all (snap_mid snap) (b_accts (set_now b t)) t = (l1, Ok tt) ->
    exists pf1, l1 = [(pid, mkAcct pf1 q0)] /\ Core0 fee (set_accts (set_now b t) l1) pf1 q0 st /\ priced snap (pf_pos pf1).
  Proof.
    intros (HA & HF & HC & HV & HI & HN). cbn [set_now b_accts]. rewrite HA. cbn [mark_all a_pf a_q].
    destruct (mark_assets (snap_mid snap) pf (map fst (pf_pos pf)) t) as [pf1 [u|e]] eqn:M; [|intro X; inversion X].
    destruct u. intro X; inversion X; subst l1; clear X.
    destruct (mark_all_priced snap t pf pf1 HN M) as (C & V & N & I & P).
    exists pf1. split; [reflexivity|]. split; [|exact P].
    unfold Core0. cbn [set_accts set_now b_accts b_fee].
    split; [reflexivity|]. split; [exact HF|]. split; [rewrite C; exact HC|]. split; [rewrite V; exact HV|].
    split; [apply I; exact HI|exact N].
  Qed.

  Lemma update_closed_core b pf q0 st t b1 ef :
    Core0 fee b pf q0 st -> is_open t = false ->
    update (snap_bidask snap) (snap_mid snap) true b t = (b1, Ok tt, ef) ->
    exists pf1, Core snap fee b1 pf1 q0 st /\ ef = [] /\ b_dt b1 = t.
  Proof.
    intros HC CL. unfold update. rewrite CL.
    destruct (true && negb (forallb (fun pa => acct_clock_ok t false (snd pa)) (b_accts b))); [intro X; inversion X|].
    destruct (mark_all (snap_mid snap) (b_accts (set_now b t)) t) as [l1 [u|e]] eqn:M; [|intro X; inversion X].
    destruct u. intro X; inversion X; subst b1 ef; clear X.
    destruct (update_marks _ _ _ _ _ _ HC M) as (pf1 & L & C0 & P).
    exists pf1. split; [apply core_split; split; assumption|]. split; reflexivity.
  Qed.

  Lemma update_open_core b pf q0 st t b1 ef :
    Core0 fee b pf q0 st -> is_open t = true -> Forall (fun o => o_qty o <> 0) q0 ->
    update (snap_bidask snap) (snap_mid snap) true b t = (b1, Ok tt, ef) ->
    exists pf1 st1 fs,
      Spec.fill_all fee t snap (mkS (st_cash st) (st_hold st) [])
        (filter (fun o => snd o <? 0) (map oview q0) ++ filter (fun o => negb (snd o <? 0)) (map oview q0)) = Some (st1, fs) /\
      eff_view ef = map sfill_view fs /\ Core snap fee b1 pf1 [] st1 /\ b_dt b1 = t /\ st_pending st1 = [].
  Proof.
    intros HC OP NZ. unfold update. rewrite OP.
    destruct (true && negb (forallb (fun pa => acct_clock_ok t true (snd pa)) (b_accts b))); [intro X; inversion X|].
    destruct (mark_all (snap_mid snap) (b_accts (set_now b t)) t) as [l1 [u|e]] eqn:M; [|intro X; inversion X].
    destruct u. destruct (update_marks _ _ _ _ _ _ HC M) as (pf1 & L & C0 & P). subst l1.
    cbn [drained empty_queues flat_map map fst snd a_q a_pf]. rewrite app_nil_r.
    unfold sells_first.
    assert (S1 : filter is_sell (map (fun o => (pid, o)) q0) = map (fun o => (pid, o)) (filter (fun o => o_qty o <? 0) q0)).
    { rewrite filter_map_comm. reflexivity. }
    assert (S2 : filter (fun po => negb (is_sell po)) (map (fun o => (pid, o)) q0) =
                 map (fun o => (pid, o)) (filter (fun o => negb (o_qty o <? 0)) q0)).
    { rewrite filter_map_comm. reflexivity. }
    rewrite S1, S2, <- map_app. intro X.
    set (bq := set_accts (set_now b t) [(pid, {| a_pf := pf1; a_q := [] |})]) in *.
    assert (CQ : Core snap fee bq pf1 [] (mkS (st_cash st) (st_hold st) [])).
    { destruct C0 as (A0 & F0 & C0 & V0 & I0 & N0). unfold Core. cbn [st_cash st_hold].
      repeat split; try assumption. }
    assert (NZ' : Forall (fun o => o_qty o <> 0) (filter (fun o => o_qty o <? 0) q0 ++ filter (fun o => negb (o_qty o <? 0)) q0)).
    { rewrite Forall_forall in *. intros o I. apply NZ. apply in_app_iff in I. destruct I as [I|I]; apply filter_In in I; tauto. }
    destruct (execute_all_core snap fee _ _ _ _ _ _ _ CQ NZ' X) as (pf2 & st1 & fs & FA & EV & C2 & D2 & P2).
    exists pf2, st1, fs. split.
    { rewrite map_app in FA. rewrite !filter_map_comm. exact FA. }
    split; [exact EV|]. split; [exact C2|]. split; [exact D2|exact P2].
  Qed.
End Update.

(** * Submitting the orders of a rebalance, one [submit; update] at a time *)
Section Submit.
  Variable snap : snapshot.
  Variable fee : fee_model.

  Lemma submit_core b pf q0 st a q b1 r ef :
    Core0 fee b pf q0 st ->
    step (snap_bidask snap) (snap_mid snap) true b (Submit pid a q) = (b1, r, ef) ->
    r = Ok ONone /\ ef = [] /\ Core0 fee b1 pf (q0 ++ [mkOrd (b_next b) a q]) st.
  Proof.
    intros (HA & HF & HC & HV & HI & HN). cbn [step]. rewrite HA. cbn [acct_find].
    change (String.eqb pid pid) with true. cbn iota. cbn [a_pf a_q acct_set]. change (String.eqb pid pid) with true. cbn iota.
    intro X; inversion X; subst; clear X. split; [reflexivity|]. split; [reflexivity|].
    unfold Core0. cbn [b_accts b_fee]. repeat split; assumption.
  Qed.

  Lemma step_update_ok b t b2 u ef :
    step (snap_bidask snap) (snap_mid snap) true b (Update t) = (b2, Ok u, ef) ->
    update (snap_bidask snap) (snap_mid snap) true b t = (b2, Ok tt, ef).
  Proof.
    cbn [step]. destruct (update (snap_bidask snap) (snap_mid snap) true b t) as [[bx [v|e]] ex]; intro X; inversion X; subst.
    destruct v. reflexivity.
  Qed.

  Lemma submit_each_closed t : is_open t = false -> forall os b pf q0 st b' ef,
    Core snap fee b pf q0 st ->
    submit_each snap b t os = (b', ef, None) ->
    exists pf' q', Core snap fee b' pf' q' st /\ map oview q' = map oview q0 ++ os /\ eff_view ef = [] /\
                   (Forall (fun o => o_qty o <> 0) q0 -> Forall (fun o => snd o <> 0) os -> Forall (fun o => o_qty o <> 0) q').
  Proof.
    intros CL. induction os as [|[a q] r IH]; intros b pf q0 st b' ef HC; cbn [submit_each].
    - intro X; inversion X; subst. exists pf, q0. rewrite app_nil_r. split; [exact HC|]. split; [reflexivity|]. split; [reflexivity|]. auto.
    - destruct (step (snap_bidask snap) (snap_mid snap) true b (Submit pid a q)) as [[b1 r1] e1] eqn:S1.
      apply core_split in HC. destruct HC as [HC0 HP].
      destruct (submit_core _ _ _ _ _ _ _ _ _ HC0 S1) as (R1 & E1 & C1). subst r1 e1.
      destruct (step (snap_bidask snap) (snap_mid snap) true b1 (Update t)) as [[b2 [u|e]] e2] eqn:S2; [|intro X; inversion X].
      apply step_update_ok in S2.
      destruct (update_closed_core snap fee _ _ _ _ _ _ _ C1 CL S2) as (pf2 & C2 & E2 & D2). subst e2.
      destruct (submit_each snap b2 t r) as [[b3 ef3] e3] eqn:S3. intro X; inversion X; subst b3 ef e3; clear X.
      destruct (IH _ _ _ _ _ _ C2 S3) as (pf' & q' & C' & Q' & EV & NZ').
      exists pf', q'. split; [exact C'|]. split.
      { rewrite Q', map_app, <- app_assoc. reflexivity. }
      split; [exact EV|]. intros N0 N1. inversion N1 as [|? ? Na Nr]; subst. apply NZ'; [|exact Nr].
      apply Forall_app. split; [exact N0|]. constructor; [exact Na|constructor].
  Qed.

  Lemma submit_each_open t : is_open t = true -> forall os b pf st b' ef,
    Core snap fee b pf [] st -> st_pending st = [] -> Forall (fun o => snd o <> 0) os ->
    submit_each snap b t os = (b', ef, None) ->
    exists pf' st' fs, Spec.fill_all fee t snap st os = Some (st', fs) /\ eff_view ef = map sfill_view fs /\
                       Core snap fee b' pf' [] st' /\ st_pending st' = [].
  Proof.
    intros OP. induction os as [|[a q] r IH]; intros b pf st b' ef HC PE NZ; cbn [submit_each Spec.fill_all].
    - intro X; inversion X; subst. exists pf, st, []. split; [reflexivity|]. split; [reflexivity|]. split; assumption.
    - inversion NZ as [|? ? Na Nr]; subst. cbn [snd] in Na.
      destruct (step (snap_bidask snap) (snap_mid snap) true b (Submit pid a q)) as [[b1 r1] e1] eqn:S1.
      apply core_split in HC. destruct HC as [HC0 HP].
      destruct (submit_core _ _ _ _ _ _ _ _ _ HC0 S1) as (R1 & E1 & C1). subst r1 e1. cbn [app] in C1.
      destruct (step (snap_bidask snap) (snap_mid snap) true b1 (Update t)) as [[b2 [u|e]] e2] eqn:S2; [|intro X; inversion X].
      apply step_update_ok in S2.
      assert (NZ1 : Forall (fun o => o_qty o <> 0) [mkOrd (b_next b) a q]) by (constructor; [exact Na|constructor]).
      destruct (update_open_core snap fee _ _ _ _ _ _ _ C1 OP NZ1 S2) as (pf2 & st2 & fs2 & FA & EV2 & C2 & D2 & P2).
      assert (ST : mkS (st_cash st) (st_hold st) [] = st) by (destruct st; cbn in *; subst; reflexivity).
      rewrite ST in FA.
      assert (ONE : filter (fun o : string * Z => snd o <? 0) (map oview [mkOrd (b_next b) a q]) ++
                    filter (fun o : string * Z => negb (snd o <? 0)) (map oview [mkOrd (b_next b) a q]) = [(a, q)]).
      { cbn [map oview o_asset o_qty filter snd]. destruct (q <? 0); reflexivity. }
      rewrite ONE in FA. cbn [Spec.fill_all] in FA.
      destruct (fill_one fee t snap st (a, q)) as [[stx f]|] eqn:FO; [|discriminate].
      inversion FA; subst st2 fs2; clear FA.
      destruct (submit_each snap b2 t r) as [[b3 ef3] e3] eqn:S3. intro X; inversion X; subst b3 ef e3; clear X.
      destruct (IH _ _ _ _ _ C2 P2 Nr S3) as (pf' & st' & fs & FA' & EV' & C' & P').
      exists pf', st', (f :: fs). rewrite FA'. split; [reflexivity|].
      split; [rewrite eff_view_app, EV2, EV'; reflexivity|]. split; assumption.
  Qed.
End Submit.
