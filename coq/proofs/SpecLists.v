(** C08 refinement, part 1: sorting, key lists and lookups shared by the session model's portfolio
    construction and the rules simulator [Spec]. *)
From Coq Require Import ZArith QArith Qround Qabs String Bool List Lia Lqa Permutation Sorted.
From QS Require Import theories.Num theories.Position theories.Portfolio theories.Fees theories.Sizer theories.PCM
  theories.Backtest theories.Spec proofs.QLemmas proofs.SizerProofs proofs.PcmProofs proofs.Determinism.
Import ListNotations.
Open Scope Z_scope.

(** * Insertion sort on bare keys, and how [sort_by_key] factors through it *)
Fixpoint sins (x : string) (l : list string) : list string :=
  match l with
  | [] => [x]
  | y :: r => if String.leb x y then x :: y :: r else y :: sins x r
  end.
Definition ssort (l : list string) : list string := fold_right sins [] l.

Definition sle (x y : string) : Prop := String.leb x y = true.

Lemma insert_by_key_map {A} (G : string -> string * A) (HG : forall a, fst (G a) = a) x l :
  insert_by_key (G x) (map G l) = map G (sins x l).
Proof.
  induction l as [|y r IH]; simpl; [reflexivity|]. rewrite !HG.
  destruct (String.leb x y); simpl; [reflexivity|]. rewrite IH. reflexivity.
Qed.
Lemma sort_by_key_map {A} (G : string -> string * A) (HG : forall a, fst (G a) = a) l :
  sort_by_key (map G l) = map G (ssort l).
Proof.
  induction l as [|x r IH]; simpl; [reflexivity|]. rewrite IH. apply insert_by_key_map. exact HG.
Qed.

Lemma sins_perm x l : Permutation (sins x l) (x :: l).
Proof.
  induction l as [|y r IH]; simpl; [apply Permutation_refl|].
  destruct (String.leb x y); [apply Permutation_refl|].
  eapply perm_trans; [apply perm_skip; exact IH|apply perm_swap].
Qed.
Lemma ssort_perm l : Permutation (ssort l) l.
Proof.
  induction l as [|x r IH]; simpl; [constructor|].
  eapply perm_trans; [apply sins_perm|apply perm_skip; exact IH].
Qed.
Lemma sins_sorted x l : StronglySorted sle l -> StronglySorted sle (sins x l).
Proof.
  induction 1 as [|y r S IH F]; simpl; [repeat constructor|].
  destruct (String.leb x y) eqn:E.
  - constructor; [constructor; assumption|]. constructor; [exact E|].
    rewrite Forall_forall in *. intros z I. unfold sle in *. eapply leb_trans; [exact E|apply F; exact I].
  - constructor; [exact IH|]. rewrite Forall_forall in *. intros z I.
    apply (Permutation_in _ (sins_perm x r)) in I. destruct I as [I|I]; [subst|apply F; exact I].
    unfold sle. destruct (String.leb_total z y) as [T|T]; [congruence|exact T].
Qed.
Lemma ssort_sorted l : StronglySorted sle (ssort l).
Proof. induction l as [|x r IH]; simpl; [constructor|apply sins_sorted; exact IH]. Qed.

Lemma ssort_sorted_id l : StronglySorted sle l -> ssort l = l.
Proof.
  induction 1 as [|x r S IH F]; simpl; [reflexivity|]. rewrite IH.
  destruct r as [|y r']; simpl; [reflexivity|].
  inversion F as [|? ? L _]; subst. unfold sle in L. rewrite L. reflexivity.
Qed.

Lemma ssort_in x l : In x (ssort l) <-> In x l.
Proof.
  split; intro I; [apply (Permutation_in _ (ssort_perm l))|apply (Permutation_in _ (Permutation_sym (ssort_perm l)))]; exact I.
Qed.
Lemma ssort_nodup l : NoDup l -> NoDup (ssort l).
Proof. intro ND. eapply Permutation_NoDup; [apply Permutation_sym; apply ssort_perm|exact ND]. Qed.

(** two sorted duplicate-free lists with the same members are the same list *)
Lemma sorted_same_members l1 : forall l2,
  StronglySorted sle l1 -> StronglySorted sle l2 -> NoDup l1 -> NoDup l2 ->
  (forall x, In x l1 <-> In x l2) -> l1 = l2.
Proof.
  induction l1 as [|x r IH]; intros l2 S1 S2 N1 N2 M.
  - destruct l2 as [|y s]; [reflexivity|]. exfalso. apply (proj2 (M y)). left; reflexivity.
  - destruct l2 as [|y s]; [exfalso; apply (proj1 (M x)); left; reflexivity|].
    inversion S1 as [|? ? S1' F1]; subst. inversion S2 as [|? ? S2' F2]; subst.
    inversion N1 as [|? ? NI1 N1']; subst. inversion N2 as [|? ? NI2 N2']; subst.
    rewrite Forall_forall in F1, F2.
    assert (E : x = y).
    { assert (Ix : In x (y :: s)) by (apply M; left; reflexivity).
      assert (Iy : In y (x :: r)) by (apply M; left; reflexivity).
      destruct Ix as [Ix|Ix]; [auto|]. destruct Iy as [Iy|Iy]; [auto|].
      specialize (F1 _ Iy). specialize (F2 _ Ix). unfold sle in *. apply String.leb_antisym; assumption. }
    subst y. f_equal. apply IH; auto.
    intro z. split; intro I.
    + assert (J : In z (x :: s)) by (apply M; right; exact I). destruct J as [J|J]; [subst; contradiction|exact J].
    + assert (J : In z (x :: r)) by (apply M; right; exact I). destruct J as [J|J]; [subst; contradiction|exact J].
Qed.

Lemma uniq_dedup l : uniq l = dedup l.
Proof. induction l as [|x r IH]; simpl; [reflexivity|]. rewrite IH. reflexivity. Qed.

Lemma full_assets_ssort held univ : full_assets held univ = ssort (dedup (held ++ univ)).
Proof.
  unfold full_assets. rewrite (sort_by_key_map (fun a => (a, tt))); [|reflexivity].
  rewrite map_map. simpl. apply map_id.
Qed.

(** * The three association lookups are one function *)
Lemma price_of_w_find a (l : list (string * Q)) : price_of a l = w_find a l.
Proof. induction l as [|[b x] r IH]; simpl; [reflexivity|]. rewrite IH. reflexivity. Qed.
Lemma snap_find_w_find a (l : list (string * Q)) : snap_find a l = w_find a l.
Proof. induction l as [|[b x] r IH]; simpl; [reflexivity|]. rewrite IH. reflexivity. Qed.
Lemma hold_of_z_find a h : hold_of a h = z_find a h.
Proof. induction h as [|[b q] r IH]; simpl; [reflexivity|]. destruct (String.eqb a b); auto. Qed.

Lemma w_find_in a x (l : weights) : NoDup (map fst l) -> In (a, x) l -> w_find a l = Some x.
Proof.
  induction l as [|[b y] r IH]; simpl; intros ND I; [contradiction|].
  inversion ND as [|? ? NI ND']; subst. destruct I as [I|I].
  - inversion I; subst. rewrite String.eqb_refl. reflexivity.
  - destruct (String.eqb a b) eqn:E.
    + apply String.eqb_eq in E. subst. exfalso. apply NI. apply in_map_iff. exists (b, x). auto.
    + apply IH; assumption.
Qed.

(** a keyed list whose values are a function of the key *)
Lemma keyed_repr (f : string -> Q) (l : weights) :
  (forall a x, In (a, x) l -> x = f a) -> l = map (fun a => (a, f a)) (map fst l).
Proof.
  induction l as [|[b y] r IH]; simpl; intro H; [reflexivity|].
  rewrite <- IH; [|intros a x I; apply H; right; exact I]. rewrite <- (H b y); [reflexivity|left; reflexivity].
Qed.

Lemma nodup_app {A} (l1 l2 : list A) :
  NoDup l1 -> NoDup l2 -> (forall x, In x l1 -> ~ In x l2) -> NoDup (l1 ++ l2).
Proof.
  induction l1 as [|x r IH]; simpl; intros N1 N2 D; [exact N2|].
  inversion N1 as [|? ? NI N1']; subst. constructor.
  - rewrite in_app_iff. intros [I|I]; [contradiction|]. apply (D x); [left; reflexivity|exact I].
  - apply IH; auto.
Qed.

(** * The weight vector the session sizes: keys and values *)
Definition wt (w : weights) (a : string) : Q := match w_find a w with Some x => x | None => 0%Q end.

Lemma weight_of_wt cfg a : weight_of cfg a = wt (sp_weights cfg) a.
Proof. unfold weight_of, wt. rewrite price_of_w_find. reflexivity. Qed.

Lemma merged_weights_repr held univ (w : weights) :
  NoDup (map fst w) ->
  let fw := merge_weights (map (fun a => (a, 0%Q)) (full_assets held univ)) w in
  NoDup (map fst fw) /\
  fw = map (fun a => (a, wt w a)) (map fst fw) /\
  (forall a, In a (map fst fw) <-> In a held \/ In a univ \/ In a (map fst w)).
Proof.
  intros ND fw.
  assert (KEYS : forall a, In a (map fst fw) <-> In a held \/ In a univ \/ In a (map fst w)).
  { intro a. apply (proj1 (weight_keys held univ w a)). }
  split; [|split; [|exact KEYS]].
  - unfold fw, merge_weights. rewrite map_app, !map_map. simpl. rewrite map_id.
    apply nodup_app.
    + apply (proj2 (full_assets_spec held univ ""%string)).
    + apply nodup_filter_keys. exact ND.
    + intros x I J. apply in_map_iff in J. destruct J as ([b y] & E & J). simpl in E. subst b.
      apply filter_In in J. destruct J as [_ J]. simpl in J.
      assert (X : exists z, w_find x (map (fun a => (a, 0%Q)) (full_assets held univ)) = Some z).
      { apply w_find_in_keys. rewrite map_map. simpl. rewrite map_id. exact I. }
      destruct X as [z X]. rewrite X in J. discriminate.
  - apply keyed_repr. intros a x I. unfold fw, merge_weights in I. apply in_app_iff in I. destruct I as [I|I].
    + apply in_map_iff in I. destruct I as ([b y] & E & I). simpl in E. inversion E; subst. clear E.
      apply in_map_iff in I. destruct I as (c & E & _). inversion E; subst. unfold wt. destruct (w_find a w); reflexivity.
    + apply filter_In in I. destruct I as [I _]. unfold wt. rewrite (w_find_in _ _ _ ND I). reflexivity.
Qed.

(** the assets a rebalance looks at are the same sorted list on both sides *)
Lemma assets_agree held univ (w : weights) :
  NoDup (map fst w) ->
  ssort (map fst (merge_weights (map (fun a => (a, 0%Q)) (full_assets held univ)) w)) =
  ssort (uniq (held ++ univ ++ map fst w)).
Proof.
  intro ND. destruct (merged_weights_repr held univ w ND) as (N & _ & K).
  apply sorted_same_members; try apply ssort_sorted.
  - apply ssort_nodup. exact N.
  - apply ssort_nodup. rewrite uniq_dedup. apply dedup_nodup.
  - intro x. rewrite !ssort_in, K, uniq_dedup, dedup_in, !in_app_iff. tauto.
Qed.
