(** Basic facts about the numeric layer. *)
From Coq Require Import ZArith QArith Qround Qabs Bool List Lia Lqa Morphisms Setoid.
From QS Require Import theories.Num theories.Portfolio.
Import ListNotations.
Open Scope Q_scope.

Lemma qadd_ok a b : qadd a b == a + b. Proof. apply Qred_correct. Qed.
Lemma qsub_ok a b : qsub a b == a - b. Proof. apply Qred_correct. Qed.
Lemma qmul_ok a b : qmul a b == a * b. Proof. apply Qred_correct. Qed.
Lemma qdiv_ok a b : qdiv a b == a / b. Proof. apply Qred_correct. Qed.
Lemma qneg_ok a : qneg a == - a. Proof. apply Qred_correct. Qed.

(** unfold the reducing operations and drop every [Qred] *)
Ltac qn :=
  unfold qadd, qsub, qmul, qdiv, qneg in *;
  repeat match goal with
         | |- context [Qred ?x] => rewrite (Qred_correct x)
         | H : context [Qred ?x] |- _ => rewrite (Qred_correct x) in H
         end.

Lemma qltb_lt a b : qltb a b = true <-> a < b.
Proof.
  unfold qltb. rewrite negb_true_iff. split; intro H.
  - apply Qnot_le_lt. intro L. apply Qle_bool_iff in L. congruence.
  - destruct (Qle_bool b a) eqn:E; auto. apply Qle_bool_iff in E. exfalso. apply (Qlt_not_le _ _ H E).
Qed.
Lemma qltb_ge a b : qltb a b = false <-> b <= a.
Proof.
  unfold qltb. rewrite negb_false_iff. apply Qle_bool_iff.
Qed.
Lemma qleb_le a b : qleb a b = true <-> a <= b.
Proof. apply Qle_bool_iff. Qed.
Lemma qleb_gt a b : qleb a b = false <-> b < a.
Proof.
  unfold qleb. split; intro H.
  - apply Qnot_le_lt. intro L. apply Qle_bool_iff in L. congruence.
  - destruct (Qle_bool a b) eqn:E; auto. apply Qle_bool_iff in E. exfalso. apply (Qlt_not_le _ _ H E).
Qed.
Lemma qeqb_eq a b : qeqb a b = true <-> a == b.
Proof. apply Qeq_bool_iff. Qed.
Lemma qeqb_neq a b : qeqb a b = false <-> ~ a == b.
Proof.
  unfold qeqb. split; intro H.
  - intro E. apply Qeq_bool_iff in E. congruence.
  - destruct (Qeq_bool a b) eqn:E; auto. apply Qeq_bool_iff in E. contradiction.
Qed.

(** [Qfloor], [round_he], [round2] respect [==]; since [Qred] is canonical the rounded
    cents are Leibniz-equal. *)
Global Instance Qfloor_proper : Proper (Qeq ==> eq) Qfloor.
Proof. intros x y H. apply Qfloor_comp; assumption. Qed.

Global Instance round_he_proper : Proper (Qeq ==> eq) round_he.
Proof.
  intros x y H. unfold round_he.
  assert (F : Qfloor x = Qfloor y) by (rewrite H; reflexivity).
  rewrite F.
  assert (C : (x - inject_Z (Qfloor y) ?= 1 # 2) = (y - inject_Z (Qfloor y) ?= 1 # 2)).
  { apply Qcompare_comp; [rewrite H; reflexivity | reflexivity]. }
  rewrite C. reflexivity.
Qed.

Lemma round2_proper x y : x == y -> round2 x = round2 y.
Proof.
  intro H. unfold round2. apply Qred_complete.
  assert (E : round_he (x * 100) = round_he (y * 100)) by (rewrite H; reflexivity).
  rewrite E. reflexivity.
Qed.

(** sums *)
Lemma fold_qplus_acc l a : fold_left Qplus l a == a + fold_left Qplus l 0.
Proof.
  revert a. induction l as [|x l IH]; intro a; simpl.
  - ring.
  - rewrite IH. rewrite (IH (0 + x)). ring.
Qed.
Lemma qsum_nil : qsum [] == 0. Proof. reflexivity. Qed.
Lemma qsum_cons x l : qsum (x :: l) == x + qsum l.
Proof. unfold qsum. simpl. rewrite fold_qplus_acc. ring. Qed.
Lemma qsum_app l1 l2 : qsum (l1 ++ l2) == qsum l1 + qsum l2.
Proof.
  induction l1 as [|x l1 IH]; simpl.
  - rewrite qsum_nil. ring.
  - rewrite !qsum_cons, IH. ring.
Qed.
