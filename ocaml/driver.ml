(* Driver for the extracted Coq model.  One case per input line:
     <entry-name> <value>
   value ::= i<hex> | i-<hex> | q<hex>/<hex> | q-<hex>/<hex> | s<text> | ( value* )
   One output line per case in the same syntax.  No arithmetic happens here:
   numbers are converted bit by bit to/from Coq's [positive]. *)
module M = Qsmodel

let hexval c =
  match c with
  | '0'..'9' -> Char.code c - 48
  | 'a'..'f' -> Char.code c - 87
  | _ -> failwith "hex"

(* bits, most significant first, of a hex string *)
let pos_of_hex (s : string) : M.positive option =
  let bits = ref [] in
  String.iter (fun c ->
    let v = hexval c in
    bits := (v land 1 = 1) :: (v land 2 = 2) :: (v land 4 = 4) :: (v land 8 = 8) :: !bits) s;
  (* !bits is least-significant first; build from most significant *)
  let msf = List.rev !bits in
  let rec strip = function false :: r -> strip r | l -> l in
  match strip msf with
  | [] -> None
  | _ :: rest -> Some (List.fold_left (fun p b -> if b then M.XI p else M.XO p) M.XH rest)

let z_of_hex (s : string) : M.z =
  let neg = String.length s > 0 && s.[0] = '-' in
  let body = if neg then String.sub s 1 (String.length s - 1) else s in
  match pos_of_hex body with
  | None -> M.Z0
  | Some p -> if neg then M.Zneg p else M.Zpos p

let hex_of_pos (p : M.positive) : string =
  (* collect bits least significant first *)
  let rec bits p acc = match p with
    | M.XH -> true :: acc
    | M.XO r -> bits r (false :: acc)
    | M.XI r -> bits r (true :: acc) in
  (* bits p [] gives most-significant first reversed? build explicitly *)
  let rec lsf p = match p with M.XH -> [true] | M.XO r -> false :: lsf r | M.XI r -> true :: lsf r in
  ignore bits;
  let l = Array.of_list (lsf p) in
  let n = Array.length l in
  let nd = (n + 3) / 4 in
  let b = Bytes.make nd '0' in
  for d = 0 to nd - 1 do
    let v = ref 0 in
    for k = 0 to 3 do
      let i = d * 4 + k in
      if i < n && l.(i) then v := !v lor (1 lsl k)
    done;
    Bytes.set b (nd - 1 - d) "0123456789abcdef".[!v]
  done;
  Bytes.to_string b

let hex_of_z (x : M.z) : string =
  match x with M.Z0 -> "0" | M.Zpos p -> hex_of_pos p | M.Zneg p -> "-" ^ hex_of_pos p

let coq_string (s : string) : M.string =
  let r = ref M.EmptyString in
  for i = String.length s - 1 downto 0 do
    let c = Char.code s.[i] in
    let b k = (c lsr k) land 1 = 1 in
    r := M.String (M.Ascii (b 0, b 1, b 2, b 3, b 4, b 5, b 6, b 7), !r)
  done; !r

let ocaml_string (s : M.string) : string =
  let buf = Buffer.create 16 in
  let rec go = function
    | M.EmptyString -> ()
    | M.String (M.Ascii (b0, b1, b2, b3, b4, b5, b6, b7), r) ->
      let v x k = if x then 1 lsl k else 0 in
      Buffer.add_char buf (Char.chr (v b0 0 + v b1 1 + v b2 2 + v b3 3 + v b4 4 + v b5 5 + v b6 6 + v b7 7));
      go r in
  go s; Buffer.contents buf

(* tokenizer over a line *)
let tokens (line : string) (start : int) : string list =
  let n = String.length line in
  let acc = ref [] in
  let i = ref start in
  while !i < n do
    if line.[!i] = ' ' then incr i
    else begin
      let j = ref !i in
      while !j < n && line.[!j] <> ' ' do incr j done;
      acc := String.sub line !i (!j - !i) :: !acc;
      i := !j
    end
  done;
  List.rev !acc

let rec parse (toks : string list) : M.val0 * string list =
  match toks with
  | [] -> failwith "eof"
  | "(" :: r ->
    let rec items r acc =
      match r with
      | ")" :: r' -> (M.VL (List.rev acc), r')
      | _ -> let (v, r') = parse r in items r' (v :: acc) in
    items r []
  | t :: r ->
    let body = String.sub t 1 (String.length t - 1) in
    (match t.[0] with
     | 'i' -> (M.VZ (z_of_hex body), r)
     | 'q' ->
       let k = String.index body '/' in
       let num = z_of_hex (String.sub body 0 k) in
       let den = String.sub body (k + 1) (String.length body - k - 1) in
       (match pos_of_hex den with
        | Some d -> (M.VQ { M.qnum = num; M.qden = d }, r)
        | None -> failwith "zero denominator")
     | 's' -> (M.VS (coq_string body), r)
     | _ -> failwith ("bad token " ^ t))

let rec print (buf : Buffer.t) (v : M.val0) : unit =
  match v with
  | M.VZ x -> Buffer.add_string buf "i"; Buffer.add_string buf (hex_of_z x)
  | M.VQ x ->
    Buffer.add_string buf "q"; Buffer.add_string buf (hex_of_z x.M.qnum);
    Buffer.add_char buf '/'; Buffer.add_string buf (hex_of_pos x.M.qden)
  | M.VS s -> Buffer.add_string buf "s"; Buffer.add_string buf (ocaml_string s)
  | M.VL l ->
    Buffer.add_string buf "(";
    List.iter (fun x -> Buffer.add_char buf ' '; print buf x) l;
    Buffer.add_string buf " )"

let () =
  try
    while true do
      let line = input_line stdin in
      if String.length line > 0 then begin
        let sp = String.index line ' ' in
        let name = String.sub line 0 sp in
        let (v, _) = parse (tokens line sp) in
        let r = M.dispatch (coq_string name) v in
        let buf = Buffer.create 1024 in
        print buf r;
        print_string (Buffer.contents buf); print_newline ()
      end
    done
  with End_of_file -> ()
