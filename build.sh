#!/bin/bash
# Build the Coq development (full .vo build) and the extracted OCaml model driver.
set -e
cd "$(dirname "$0")"
mkdir -p build
cd coq
[ -f Makefile ] && [ Makefile -nt _CoqProject ] || coq_makefile -f _CoqProject -o Makefile >/dev/null
set -o pipefail
timeout 3000 make -j"${VERIF_JOBS:-16}" 2>&1 | { grep -v '^COQDEP\|^COQC\|^CoqMakefile' || true; }
test -f extract/Extract.vo
# coqc writes the extracted files into the directory it runs in
if [ ! -f ../build/qsmodel.ml ] || [ qsmodel.ml -nt ../build/qsmodel.ml ] || [ ../ocaml/driver.ml -nt ../build/qsmodel_driver ]; then
  cp qsmodel.ml qsmodel.mli ../build/
  cp ../ocaml/driver.ml ../build/driver.ml
  (cd ../build && ocamlfind ocamlopt -O3 -w -a qsmodel.mli qsmodel.ml driver.ml -o qsmodel_driver 2>/dev/null \
     || ocamlfind ocamlopt -w -a qsmodel.mli qsmodel.ml driver.ml -o qsmodel_driver)
fi
echo "build ok"
