#!/bin/bash
# usage: try_seed.sh <pid> <worktree> [checks...]: confirm a seeded change and run checks against it
set -u
pid=$1; wt=$2; shift 2
d=/verif/seeded/$pid; mkdir -p $d
git -C $wt diff -- qstrader > $d/patch.diff
cp $wt/demo_$pid.py $d/demo.py 2>/dev/null
cp $wt/NOTES_$pid.md $d/NOTES.md 2>/dev/null
echo "== patch"; cat $d/patch.diff
echo "== tests with change"; (cd $wt && PYTHONPATH=$wt /venv/bin/python -m pytest -q -p no:cacheprovider tests 2>&1 | tail -1)
echo "== demo with change"; (cd $wt && PYTHONPATH=$wt /venv/bin/python $wt/demo_$pid.py >/dev/null 2>&1; echo "exit $?")
(cd $wt && git stash -q -- qstrader)
echo "== demo without change"; (cd $wt && PYTHONPATH=$wt /venv/bin/python $wt/demo_$pid.py >/dev/null 2>&1; echo "exit $?")
(cd $wt && git stash pop -q)
git -C /repo apply $d/patch.diff || { echo "APPLY FAILED"; exit 1; }
for c in "$@"; do echo "== check $c on mutated /repo"; (cd /verif && ./check $c 2>&1 | grep -v "^  " | cut -c1-300 | tail -3); echo "exit ${PIPESTATUS[0]}"; done
git -C /repo checkout -- . ; git -C /repo status --short | head -3
