#!/bin/bash
# Re-run every recorded seeded change against the current checks: one scratch worktree per change (under /tmp,
# removed afterwards), patch applied there, the property's own check run with VERIF_REPO=<worktree>.
# usage: replay_seeded.sh [ids...]   (default: all of seeded/*) ; prints "<id> detected|MISSED|patch-failed"
V=$(cd $(dirname $0)/.. && pwd)
cd $V
ids="$@"; [ -z "$ids" ] && ids=$(ls seeded | grep -v REPLAY)
for id in $ids; do
  pid=${id%%-*}
  wt=/tmp/replay_$id
  git -C /repo worktree add --detach $wt HEAD >/dev/null 2>&1
  if git -C $wt apply $V/seeded/$id/patch.diff 2>/dev/null; then
    out=$(VERIF_REPO=$wt ./check $pid 2>&1 | grep -E "^VIOLATION|^HARNESS")
    extra=""
    if [ -z "$out" ]; then
      # some changes are caught by a neighbouring property's check (recorded in meta.json)
      for other in $(python3 -c "import json,re;m=json.load(open('$V/seeded/$id/meta.json'));print(' '.join(sorted(set(re.findall(r'C\d\d',' '.join(m['caught_by'])))-{'$pid'})))"); do
        o2=$(VERIF_REPO=$wt ./check $other 2>&1 | grep -E "^VIOLATION")
        [ -n "$o2" ] && extra="$extra $other"
      done
    fi
    if [ -n "$out" ]; then echo "$id detected by $pid $(echo $out | grep -o no-failing-input-found | head -1)";
    elif [ -n "$extra" ]; then echo "$id detected by$extra (not by $pid)";
    else echo "$id MISSED"; fi
  else
    echo "$id patch-failed"
  fi
  git -C /repo worktree remove --force $wt >/dev/null 2>&1
done
