#!/usr/bin/env python3
"""Regenerate MANIFEST.json from the per-property table below."""
import json, os
ROOT = os.path.dirname(os.path.dirname(os.path.abspath(__file__)))
ALL = ['C%02d' % i for i in range(1, 20)]

TRUST = ("Trusted: Coq 8.16.1 kernel and VM (vm_compute; no native_compute); axioms as printed by Print Assumptions "
         "(recorded in the evidence file); extraction with ExtrOcamlBasic only + ocaml/driver.ml; the correspondence "
         "harness (generators, 1e-9*S tolerance, knife-edge rule). The model is hand-written; pandas/numpy/CPython "
         "behaviour is observed through the correspondence runs, not derived. ")

CLAIMED = {
 'C01': dict(
   text="Machine-checked theorems (props/C01.v: pf_cash_ledger, cash_ledger_invariant, transfer_is_zero_sum, cash_frame, "
        "account_totals_obtainable, history_is_ledger) over the Coq model of SimulatedBroker/Portfolio for every operation "
        "list and every data handler; the model is tied to /repo by running the extracted model and the real broker on the "
        "same random/boundary/malformed operation sequences and diffing cash, totals and history after every call, plus a "
        "direct ledger predicate on the implementation's own records.",
   note=TRUST + "Modelled: quote oracle as a function argument; non-base currencies always 0.",
   design="7/C01", technique="Coq proof by induction over operation lists (ledger invariant) + model/implementation correspondence check"),
 'C02': dict(
   text="Machine-checked theorems (props/C02.v): for every accepted sequence of fills and price marks on a portfolio, per asset, "
        "reported quantity == signed sum of fills, listed iff that sum is non-zero, no duplicate keys, price = latest fill or "
        "accepted mark (refinement to the tracked abstract state (net, last price), proved as an invariant over operation lists); "
        "market value and equity by definition of the getters. Tied to /repo by fill/mark sequences through the real broker and "
        "directly on Portfolio, comparing get_portfolio_as_dict (keys in order, quantity, market value), total market value and equity.",
   note=TRUST + "Theorem is at the Portfolio level (explicit timestamps); that broker fills are exactly Portfolio transactions is C04/C05.",
   design="7/C02", technique="Coq proof: invariant by induction over operation lists (refinement to an abstract (net, price) map) + correspondence check"),
 'C03': dict(
   text="Machine-checked theorems over rationals, i.e. all real-valued quantities, prices and commissions (props/C03.v): the accounting "
        "invariant of Position is established by the opening fill and preserved by every effective fill; from it total P&L == "
        "market value - sum(price x signed qty) - sum(commissions) == realised + unrealised in every sign regime, unrealised == "
        "(price - average cost incl. the open side's commission) x net; re-marking changes the price only. Tied to /repo by "
        "ladders of 1-60 fills (integer and real quantities) + all sign patterns of short ladders on the real Portfolio/Position.",
   note=TRUST + "Sub-unit buys (0 < q < 1) are ignored by Position (subunit_buy_ignored) and are outside the documented contract; excluded by the [effective] hypothesis.",
   design="7/C03", technique="Coq proof: field/lra algebra over Q on an invariant proved by induction over fills + correspondence check"),
 'C04': dict(
   text="Machine-checked theorems (props/C04.v): exchange-hours characterisation for every instant (with the 14:30:00 / 21:00:00 "
        "boundaries); submitting changes nothing but the queue; an update outside hours changes no queue, cash, history or quantity; "
        "a successful update inside hours emits exactly one full-quantity fill per pending order, sells first then buys in queue order, "
        "and empties the queues; over any accepted operation history fills + pending ids are a permutation of the submitted ids "
        "(never twice, never dropped). Tied to /repo by submission/update interleavings incl. boundary seconds, and the exchange "
        "predicate compared on every second of a week (thorough).",
   note=TRUST + "Conservation theorem is stated for histories whose operations are all accepted (refused ones are no-ops by C15; an update failing for a missing quote is outside the property).",
   design="7/C04", technique="Coq proof: queue invariants + permutation argument by induction over operation lists; lia for the calendar + correspondence check"),
 'C05': dict(
   text="Machine-checked theorems (props/C05.v): every fill of every update in every state is stamped with the update time, priced at "
        "the data handler's ask (buy) / bid (sell) at that time, with commission == fee model on price x quantity rounded half-even; "
        "fills happen only in updates; zero/percentage fee formulas, non-negativity, and buy/sell symmetry (round-half-even is odd). "
        "Tied to /repo by broker runs with bid != ask and rates in [0,1], and the fee models alone on random considerations.",
   note=TRUST + "BacktestDataHandler returns (bid, bid); the property is checked at the broker/data-handler interface with a stub whose bid != ask.",
   design="7/C05", technique="Coq proof by induction over the executed order list; Q arithmetic lemmas + correspondence check"),
 'C06': dict(
   text="Machine-checked theorems (props/C06.v) over an operational model of the pandas pipeline (sort, adjust, open/close observations, "
        "forward fill, at-or-before lookup): the answer is the last non-missing observation at or before t (NaN before the first open); "
        "it depends only on rows dated on or before day(t) (any later rows rewritten/removed/added, any row order); availability is "
        "monotone; handler bid = ask = mid. point_in_time_refuted shows the pinned wrap-around lookup violates it. Tied to /repo by CSV "
        "directories written by the harness and loaded by the real CSVDailyBarDataSource + BacktestDataHandler, boundary-instant queries, "
        "and metamorphic re-runs with the future removed or rewritten.",
   note=TRUST + "The model is fed the values pandas parsed from the CSV (CSV parsing itself is out of scope); duplicate dates (a pandas constructor error) are excluded by the NoDup hypothesis.",
   design="7/C06", technique="Coq proof (sorted-list / permutation / forward-fill lemmas) + model/implementation correspondence check"),
 'C07': dict(
   text="Machine-checked theorems (props/C07.v): for every configuration and any two markets equal at all instants <= T, session construction "
        "succeeds/fails identically and everything the run stamps on or before T (equity points, fills, allocation rows, the aborting error) "
        "is Leibniz-identical; composed with C06 for file-backed markets that agree on rows dated <= day T (later rows rewritten, removed or "
        "added). Tied to /repo by pairs of real sessions (CSV-backed with the real data source, and table-backed) whose data after a random "
        "cut day are rewritten / randomised / removed, compared bit-for-bit up to T; the first run of each pair is compared with the model.",
   note=TRUST + "The theorem gives identity of exact (rational) traces; bit-for-bit identity of floats is established between implementation runs. Alpha models in the model: fixed, universe-driven, top-N momentum, SMA trend (the harness also runs a volatility-filter alpha, implementation-side only). A NaN price reaching a signal window is out of model.",
   design="7/C07", technique="Coq proof by induction over the (sorted) event list of the session model + model/implementation correspondence check"),
 'C08': dict(
   text="Refinement proof to an independent executable specification. Spec.v is a naive day-by-day simulator of the documented rules that "
        "shares nothing with Broker/PCM/Sizer/Backtest except the calendar and numeric primitives. Machine-checked (props/C08.v, theorem "
        "backtest_refines_spec, proved in proofs/SpecLists, SpecSizing, SpecBroker, SpecRun by a simulation relation on cash, holdings and "
        "pending orders, induction over the business days): for every fixed-weight configuration (any static universe, weight vector with "
        "distinct keys, sizing mode, fee model, schedule, burn-in, dates, cash) and every market, a session that does not raise agrees with "
        "Spec.spec_run on every fill (time, asset, quantity, price, commission), on the times and values of daily equity and on final cash, "
        "holdings and pending orders; and (backtest_matches_rules_on_quoted_markets, proofs/SpecProgress) on every market that quotes all assets of the universe and of the weight vector positively at every clock instant (weights non-negative when long-only, start not after the open of its day) the session never raises, so the agreement is unconditional there; and (every_session_follows_the_rules_from_its_allocations, proofs/SpecRows) for EVERY alpha model, static or dynamic universe, with or without signals, the fills, equity and final state of a session that does not raise are what the rules compute from the target-allocation rows the session recorded, each consumed by exactly one scheduled rebalance, none left over. Tied to /repo on every run: real fixed-weight sessions (both sizers, all schedules, fees, burn-in) are "
        "compared with Spec.spec_run and with the session model, and sessions with every alpha model are compared with Spec.spec_run_rows driven by the implementation's own recorded target allocations.",
   note=TRUST + "The general theorem is conditional on the session trace carrying no error (a run that raises is outside the statement); the quoted-market corollary removes that premise; rational values computed through different but equal expressions (equity, cash) are related by == on Q.",
   design="7/C08", technique="executable specification in Coq + refinement proof (simulation relation, induction over days) + implementation-vs-specification correspondence check"),
 'C14': dict(
   text="Machine-checked theorems (props/C14.v) on the session model: in every error-free run the allocation rows are stamped with exactly the "
        "clock instants that are scheduled and not before burn-in, the equity points with exactly the market closes not before burn-in; fills "
        "occur only inside exchange hours; no fill precedes the first portfolio construction. Tied to /repo by real sessions over "
        "start/end/burn-in triples (burn-in on, one second around, between rebalance instants, absent), all rebalance kinds and alpha models, "
        "with PCM call times, fills, the equity curve (values recomputed from cash + holdings at the close) and the reindexed allocation "
        "table checked directly.",
   note=TRUST + "The allocation table (get_target_allocations: reindex with method='ffill', burn-in cut) has its own model (AllocTable.v) with theorems (dates = equity dates not before the burn-in date; each date carries the whole row of the latest rebalance on or before it, nothing before the first; a column the latest row lacks stays missing) and is compared with the implementation's table on every session, fed with the rows and equity dates the session itself recorded. get_equity_curve() on an empty curve raises AttributeError in pandas (recorded as an observation, not claimed).",
   design="7/C14", technique="Coq proof: trace invariants by induction over the event list + model/implementation correspondence check"),
 'C18': dict(
   text="Machine-checked theorems (props/C18.v) about what could make the code not a function of its inputs: the rebalance asset list, sums and "
        "per-asset sizing are invariant under any permutation of holdings / universe / dict enumeration; orders are emitted sorted; the asset "
        "list a signal exposes is (old ++ new entrants in universe order); a memo answers like the function after any query history; "
        "assets_order_leak_refuted shows the pinned hash-ordered append changes target weights. Tied to /repo by running each backtest twice "
        "in one process (sharing the memoised CSV data source, with extra queries) and in fresh interpreters under several PYTHONHASHSEEDs, "
        "incl. dynamic universes whose assets enter together with the top-N momentum alpha on tied momenta; digests compared bit-for-bit.",
   note=TRUST + "Interpreter-level nondeterminism (hash seeds, lru_cache) is exhibited by the runs; the theorems cover the logical reasons it cannot matter. Order ids (uuid4) are excluded from the digests.",
   design="7/C18", technique="Coq proof (permutation invariance, memo invariant) + repeated / cross-interpreter implementation runs + correspondence check"),
 'C09': dict(
   text="Machine-checked theorems (props/C09.v): the recorded allocation covers exactly held + universe + alpha keys (zero where alpha is "
        "silent); the order list is exactly target - current per target asset and nothing else, ascending (insertion sort proved a sorted "
        "permutation, string order proved transitive), without zero or duplicate entries; current + orders = target for every asset; a zero "
        "weight sizes to zero under both sizers (liquidation); with any optimiser (pass-through or equal weight) the optimiser is given the alpha weights only - "
        "named assets get its figure (scale / number of NAMED assets), every other held or universe asset exactly 0 (the_optimiser_sees_only_the_alpha_weights). Tied to /repo by 1-4 successive rebalances on a real SimulatedBroker with "
        "real PCM and sizers, both optimisers (orders filled at the next open or sent through the ExecutionHandler, holdings compared with the target), each PCM call replayed on the model (pcm_call / pcm_call_opt).",
   note=TRUST + "'holdings equal the target after the fills' is proved on the rules simulator (after_the_next_open_holdings_equal_the_target: filling the pending orders in any order, in particular sells first, lands every asset on its target) and carries over to sessions through the C08 refinement theorems; on the implementation it is exercised end-to-end by the correspondence runs.",
   design="7/C09", technique="Coq proof (permutation / sortedness / association-list lemmas) + model/implementation correspondence check"),
 'C10': dict(
   text="Machine-checked theorems over rationals (props/C10.v): for every equity, weight >= 0 and price > 0 the target is the whole number "
        "with q*price + fees <= share < (q+1)*price + fees; q >= 0 when fees fit (c + t <= 1); the whole target costs at most E x "
        "sum(weights used) where the weights used sum to exactly 1 unless the raw sum is ~0; zero weight -> zero; negative weight, "
        "buffer outside [0,1], unavailable price rejected. fee_over_100_refuted exhibits the known corner K1. Tied to /repo by the "
        "real sizer on random / exact-multiple / near-threshold / malformed vectors.",
   note=TRUST + "np.isclose threshold modelled as the binary64 value of 1e-8. Known finding K1 (fee rates above 100 %) is listed in known_findings.json.",
   design="7/C10", technique="Coq proof (Qfloor sandwich, lra/field over Q, induction over the asset list) + correspondence check"),
 'C11': dict(
   text="Machine-checked theorems over rationals (props/C11.v): truncation-toward-zero quantity with the sign of the after-cost dollars, "
        "|q| x price <= |after| and one more share exceeds |after| - 1; sign of after = sign of weight and |after| <= (1+f)|D| for f <= 1; "
        "normalised gross exposure == leverage (unless raw gross ~0), giving sum |q| price <= L x equity x (1+f); non-positive leverage "
        "and unavailable price rejected; the two corner findings K2/K3 as refutation witnesses. Tied to /repo by the real sizer on "
        "signed random / exact-integer / near-threshold / malformed vectors.",
   note=TRUST + "Known findings K2 (fees above 100 %) and K3 (leverage below a gross exposure that is itself below 1e-8) are listed in known_findings.json.",
   design="7/C11", technique="Coq proof (floor/ceiling/truncation lemmas, lra/field over Q) + correspondence check"),
 'C12': dict(
   text="Machine-checked theorems (props/C12.v): end < start rejected; for start <= end with tod(end) >= tod(start) the clock's days "
        "are exactly the Mon-Fri dates of the range; events are the per-day blocks [00:00]? 14:30 21:00 [23:59]? in day order; event "
        "times strictly increasing for all four flag combinations - for every (start, end) over the integers. The model states what "
        "pd.date_range(freq=BDay()) means; it is tied to /repo by running the real engine on random ranges up to 30 years and an "
        "exhaustive 70-day x 6x6 time-of-day grid (thorough) and comparing the full (timestamp, type) list, plus a datetime.date oracle.",
   note=TRUST + "The code is one pandas call; the theorem is about its stated meaning, the correspondence connects the two. UTC only, whole seconds.",
   design="7/C12", technique="Coq proof (filter over an integer range, lia with div/mod) + model/implementation correspondence check"),
 'C13': dict(
   text="Machine-checked theorems (props/C13.v): weekly / daily / end-of-month membership characterisations (end of month = last "
        "Mon-Fri date of its month, using month_index monotonicity proved for ALL days by a complete 400-year vm_compute sweep + "
        "periodicity), stamps, strict increase, buy-and-hold instant, unknown weekday rejected, and meets_clock: every scheduled "
        "instant is a market_close/open event of the clock for the same range. Tied to /repo by the real Rebalance classes and engine "
        "over random and grid ranges, weekday strings incl. invalid ones, and civil-date arithmetic vs datetime.date on every day "
        "1900-2299 (thorough).",
   note=TRUST + "pandas' W-XXX / BME / bdate_range semantics are modelled and observed through the correspondence.",
   design="7/C13", technique="Coq proof incl. finite-cycle sweep by vm_compute lifted by a periodicity lemma + correspondence check"),
 'C15': dict(
   text="Machine-checked theorems (props/C15.v: rejected_is_noop for every state and every non-update request, "
        "reachable_rejected_is_noop for every reachable state and every request incl. the repaired clock update, validated_update_never_refuses_the_timestamp, portfolio_rejected_is_noop, "
        "and a two-directional refusal table) plus update_backwards_refuted (the pinned update violates it). Tied to /repo "
        "by malformed-heavy operation sequences on the real broker and Portfolio with full before/after snapshots.",
   note=TRUST + "Complete for every state reachable from a fresh broker (reachable_rejected_is_noop, incl. that a validated update can no longer refuse the timestamp). Clocks are excluded (not in the property's list); update failures for reasons the property does not list (missing quote, non-positive data price) are outside its scope.",
   design="7/C15", technique="Coq proof by case analysis on the step function + model/implementation correspondence check"),
 'C16': dict(
   text="Machine-checked theorems (props/C16.v): after any price stream the N-window is the most recent N prices; momentum over the "
        "(N+1)-window == last/first - 1 (telescoping), 0 while warming up; SMA == mean of the window; volatility^2 == 252 x population "
        "variance of the window's simple returns; and whatever interleaving of appends for whatever assets/lookbacks happened, the window "
        "for (asset, N) is a function of that asset's own stream and N only; and for WHOLE SESSIONS (session_windows_are_the_assets_own_closes): "
        "in every run that has not raised after its first n clock events - any configuration, schedule, alpha model, sizing mode, market - "
        "every momentum / moving-average window is the most recent part of its own asset's business-day closes since it was first tracked, "
        "the tracked list (start members, then new universe members in universe order) and the warm-up counter are functions of the "
        "universe and the market alone, one close contributing exactly one own price per tracked asset. Tied to /repo by the real Momentum/SMA/Volatility signals on "
        "random interleaved positive streams (after every append) and, for long lookbacks, by the definitions in exact arithmetic.",
   note=TRUST + "sqrt is applied outside the model (the model carries the variance). The session cadence is proved per event and lifted to whole runs by induction over the event list of the session model (Backtest.v), which the backtest correspondence runs tie to BacktestTradingSession; sessions whose assets have no price yet on some days are judged by a per-close observation predicate on the implementation (a NaN price entering a window is outside the model). Model comparison is limited to lookbacks <= 5 (exact rationals grow with the window); longer lookbacks are compared with the definitions only.",
   design="7/C16", technique="Coq proof (list suffix lemmas, telescoping product by induction, invariant over append sequences) + correspondence check"),
 'C17': dict(
   text="Machine-checked theorems (props/C17.v): cum_t == e_t/e_0; aggregates over any calendar key compound to the total; drawdown == "
        "(hwm - value)/hwm with hwm the running maximum INCLUDING the first observation; max drawdown is the maximum; duration bounds every "
        "under-water run and is attained; mean/population variance formulas; every statistic is identical (Leibniz) when equity is scaled by "
        "k <> 0. drawdown_def_refuted shows the pinned seed-0 loop violates the definition. Tied to /repo by performance.*, JSONStatistics and "
        "TearsheetStatistics on random / monotone / peak-first / flat / V-shaped curves, with re-runs under scaling.",
   note=TRUST + "sqrt / pow (Sharpe, Sortino, CAGR) are applied to the model's rationals by the harness; quantiles and plotting are not modelled. Near-constant return series (variance < 1e-12) are treated as a knife edge for the ratio statistics.",
   design="7/C17", technique="Coq proof (fold/scan invariants, partition of products, Qred canonicity for scale invariance) + correspondence check"),
 'C19': dict(
   text="Machine-checked theorems (props/C19.v): dynamic-universe membership iff an entry time e <= t exists (inclusive; no entry = never), "
        "static universe = its list, the universe-driven alpha weights exactly the members, fixed-weight optimiser = identity, equal-weight "
        "optimiser = scale/N each summing to the scale on the same keys; and at the level of WHOLE SESSIONS (every configuration, schedule, "
        "sizing mode, fee model and market, whether or not the run raises later): no order is filled - so no position exists - in an asset "
        "before its entry time, the allocation row recorded at t lists exactly the assets with entry <= t each with the signal weight, and "
        "in a run that does not raise every scheduled instant past the burn-in has such a row (included from the first rebalance onward); "
        "proved from a frame theorem on the broker (an update, whatever its outcome, touches no asset without a position or pending order). "
        "Tied to /repo by the real universes queried around every entry instant, the real optimisers on random dictionaries, real PCM "
        "rebalances and whole real sessions with dynamic universes replayed on the model.",
   note=TRUST + "The session theorems are about the session model (Backtest.v), which the C07/C08/C14/C18 correspondence runs tie to BacktestTradingSession; they are stated for the universe-driven alpha model (SingleSignalAlphaModel), as the property is.",
   design="7/C19", technique="Coq proof (list membership / field arithmetic; invariant over the event list of the session model with a broker frame lemma) + model/implementation correspondence check"),
}

def main():
    checks = []
    for pid in ALL:
        if pid not in CLAIMED:
            continue
        c = CLAIMED[pid]
        checks.append({
            'property_id': pid,
            'quick_cmd': './check %s --tier quick' % pid,
            'thorough_cmd': './check %s --tier thorough' % pid,
            'evidence_file': '/verif/evidence/%s.json' % pid,
            'replay_cmd_template': './check %s --replay {path}' % pid,
            'engine': 'coq-model-correspondence',
            'level_claimed': {'category': 'proof', 'text': c['text'], 'design_ref': c['design']},
            'level_note': c['note'],
            'technique': c['technique'],
        })
    na = [{'property_id': p, 'reason': 'not claimed yet: model, theorems and correspondence check for this property are still under construction (see DESIGN.md section 7)'}
          for p in ALL if p not in CLAIMED]
    m = {
        'version': 1,
        'setup_cmd': './build.sh',
        'hooks': {'guard': 'QSTRADER_VERIF', 'enable': 'no source hooks: the harness stubs the data handler through public constructor parameters and wraps Portfolio.transact_asset at run time; QSTRADER_VERIF=1 is set for the implementation subprocesses but nothing in /repo reads it',
                  'baseline_off_cmd': 'cd /repo && /venv/bin/python -m pytest -ra -q -p no:cacheprovider --timeout=900 --continue-on-collection-errors',
                  'source_commits': [], 'add_only': True},
        'engines': [{'name': 'coq-model-correspondence', 'path': '/verif/check',
                     'serves_properties': [c['property_id'] for c in checks],
                     'kind_free_text': 'Coq 8.16 theorems over a hand-written executable Gallina model (coq/), extracted to OCaml and run against /repo on the same inputs by harness/ (Python)'}],
        'checks': checks,
        'not_applicable': na,
        'notes': 'Fix commits in /repo are recorded in known_findings.json (fixed: entries). See DESIGN.md.',
    }
    json.dump(m, open(os.path.join(ROOT, 'MANIFEST.json'), 'w'), indent=1)
    print('MANIFEST.json: %d checks, %d not claimed' % (len(checks), len(na)))

if __name__ == '__main__':
    main()
