#!/usr/bin/env python3
"""Regenerate MANIFEST.json from the per-property table below."""
import json, os
ROOT = os.path.dirname(os.path.dirname(os.path.abspath(__file__)))
ALL = ['C%02d' % i for i in range(1, 20)]

TRUST = ("Trusted: Coq 8.16.1 kernel and VM (vm_compute; no native_compute); axioms as printed by Print Assumptions "
         "(recorded in the evidence file); extraction with ExtrOcamlBasic only + ocaml/driver.ml; the correspondence "
         "harness (generators, 1e-9*S tolerance, knife-edge rule). The model is hand-written; pandas/numpy/CPython "
         "behaviour is observed through the correspondence runs, not derived. ")

CLAIMED = {
 'C01': dict(
   text="Machine-checked theorems (props/C01.v: pf_cash_ledger, cash_ledger_invariant, transfer_is_zero_sum, cash_frame, "
        "account_totals_obtainable, history_is_ledger) over the Coq model of SimulatedBroker/Portfolio for every operation "
        "list and every data handler; the model is tied to /repo by running the extracted model and the real broker on the "
        "same random/boundary/malformed operation sequences and diffing cash, totals and history after every call, plus a "
        "direct ledger predicate on the implementation's own records.",
   note=TRUST + "Modelled: quote oracle as a function argument; non-base currencies always 0.",
   design="7/C01", technique="Coq proof by induction over operation lists (ledger invariant) + model/implementation correspondence check"),
 'C15': dict(
   text="Machine-checked theorems (props/C15.v: rejected_is_noop for every state and every non-update request, "
        "backwards_update_is_noop / update_validation_is_noop for the repaired clock update, portfolio_rejected_is_noop, "
        "and a two-directional refusal table) plus update_backwards_refuted (the pinned update violates it). Tied to /repo "
        "by malformed-heavy operation sequences on the real broker and Portfolio with full before/after snapshots.",
   note=TRUST + "Partial: that an update which passes the up-front timestamp validation can no longer be refused for an early "
        "timestamp deeper down is covered by the correspondence runs, not yet by a theorem. Clocks are excluded (not in the property's list).",
   design="7/C15", technique="Coq proof by case analysis on the step function + model/implementation correspondence check"),
}

def main():
    checks = []
    for pid in ALL:
        if pid not in CLAIMED:
            continue
        c = CLAIMED[pid]
        checks.append({
            'property_id': pid,
            'quick_cmd': './check %s --tier quick' % pid,
            'thorough_cmd': './check %s --tier thorough' % pid,
            'evidence_file': '/verif/evidence/%s.json' % pid,
            'replay_cmd_template': './check %s --replay {path}' % pid,
            'engine': 'coq-model-correspondence',
            'level_claimed': {'category': 'proof', 'text': c['text'], 'design_ref': c['design']},
            'level_note': c['note'],
            'technique': c['technique'],
        })
    na = [{'property_id': p, 'reason': 'not claimed yet: model, theorems and correspondence check for this property are still under construction (see DESIGN.md section 7)'}
          for p in ALL if p not in CLAIMED]
    m = {
        'version': 1,
        'setup_cmd': './build.sh',
        'hooks': {'guard': 'QSTRADER_VERIF', 'enable': 'no source hooks: the harness stubs the data handler through public constructor parameters and wraps Portfolio.transact_asset at run time; QSTRADER_VERIF=1 is set for the implementation subprocesses but nothing in /repo reads it',
                  'baseline_off_cmd': 'cd /repo && /venv/bin/python -m pytest -ra -q -p no:cacheprovider --timeout=900 --continue-on-collection-errors',
                  'source_commits': [], 'add_only': True},
        'engines': [{'name': 'coq-model-correspondence', 'path': '/verif/check',
                     'serves_properties': [c['property_id'] for c in checks],
                     'kind_free_text': 'Coq 8.16 theorems over a hand-written executable Gallina model (coq/), extracted to OCaml and run against /repo on the same inputs by harness/ (Python)'}],
        'checks': checks,
        'not_applicable': na,
        'notes': 'Fix commits in /repo are recorded in known_findings.json (fixed: entries). See DESIGN.md.',
    }
    json.dump(m, open(os.path.join(ROOT, 'MANIFEST.json'), 'w'), indent=1)
    print('MANIFEST.json: %d checks, %d not claimed' % (len(checks), len(na)))

if __name__ == '__main__':
    main()
