import json,subprocess,os,sys
rnd=sys.argv[1]; pids=sys.argv[2:]
props={}
for l in open('/verif/properties.jsonl'):
    d=json.loads(l); props[d['id']]=d
T='''You are helping test a verification harness for the Python project mhallsmoore/qstrader (a schedule-driven backtesting engine).
Your scratch copy of the project is the git worktree {wt} . Work ONLY inside that directory. Do not read or write anything under /verif or /repo.
Python to use: /venv/bin/python with PYTHONPATH={wt} (so that the worktree's qstrader package is the one imported).
The test suite: cd {wt} && PYTHONPATH={wt} /venv/bin/python -m pytest -q -p no:cacheprovider tests   (151 tests, they pass now).

PROPERTY {pid}: {title}
Statement: {statement}
Quantified over: {quant}
Code it is anchored in: {files}

TASK. Make ONE small, realistic change to the qstrader source in your worktree (the kind of slip or well-meant "improvement" a maintainer could
plausibly commit) such that:
 1. the package still imports and the whole existing test suite still passes, unedited;
 2. the property above is now FALSE for some inputs - but it needs something specific to show (a particular configuration, constructor
    option, boundary, ordering, date, value range, sequence of calls, object reuse ...); ordinary inputs must keep behaving exactly as before;
 3. it is DIFFERENT IN KIND from these earlier ideas, which have already been tried: {prevs} - a different mechanism and
    preferably a different function or file. Think about rarely used constructor options, public methods, state kept between calls, and code paths of
    the anchored files (and of the files they call into) that a test generator focused on the common path could overlook.
 4. the failing scenario uses the library the way an ordinary user would (documented constructors, public methods, attributes a user may
    reasonably set, ordinary data files) - no monkey-patching, no reaching into private state, no corrupted objects.
Do not touch the tests. Do not add comments that reveal the change is deliberate. Keep the diff small (a few lines). Leave it applied and UNCOMMITTED in the worktree.

Also write in the worktree root:
 - demo_{pid}.py : a self-contained script (uses only the public qstrader API, numpy, pandas; no network, no files outside a temp dir it creates and removes)
   that exits 0 with a line starting "OK" on the ORIGINAL code and exits 1 (assertion) on your changed code, by checking the property directly.
 - NOTES_{pid}.md : 5-10 lines: what you changed, why the property breaks, what it needs to manifest.
To run the demo on the original code do NOT use git stash (the stash is shared between worktrees and other agents are running):
use   git diff -- qstrader > /tmp/{pid}_r{rnd}.patch ; git apply -R /tmp/{pid}_r{rnd}.patch ; <run> ; git apply /tmp/{pid}_r{rnd}.patch
Confirm: suite passes with the change; demo exits 1 with the change and 0 without. Finish with a short summary (the diff, why it breaks the property, what it needs).
'''
for pid in pids:
    d=props[pid]
    prevs=[]
    for suf in ['','-2','-3','-4','-5','-6','-7','-8','-9','-10','-11','-12','-13','-14','-15','-16']:
        f='/verif/seeded/%s%s/meta.json'%(pid,suf)
        if os.path.exists(f): prevs.append('"%s"'%json.load(open(f))['change'])
    wt='/tmp/w%s_%s'%(rnd,pid)
    subprocess.run(['git','-C','/repo','worktree','add','--detach',wt,'HEAD'],capture_output=True)
    open('/tmp/prompt%s_%s.txt'%(rnd,pid),'w').write(T.format(wt=wt,pid=pid,rnd=rnd,title=d['title'],statement=d['statement'],quant=d['quantifier']['text'],files=', '.join(d['anchors']['files']),prevs='; '.join(prevs)))
print('ok')
