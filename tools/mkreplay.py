#!/usr/bin/env python3
"""Assemble seeded/REPLAY.md from logs of tools/replay_seeded.sh (later logs override earlier lines for the same id)."""
import re, sys, os
res = {}
for f in sys.argv[1:]:
    for l in open(f):
        m = re.match(r'^(C\d\d(?:-\d+)?) (detected.*|MISSED|patch-failed)\s*$', l.strip())
        if m:
            res[m.group(1)] = m.group(2).strip()
def key(i):
    p, _, n = i.partition('-')
    return (p, int(n or 1))
ids = sorted(res, key=key)
out = ['# Regression replay of the recorded seeded changes (tools/replay_seeded.sh)', '',
       'Every recorded change is applied to a scratch worktree of /repo and the property\'s own quick check (default seed) is run',
       'against it with VERIF_REPO=<worktree>; a change not caught by its own check is tried against the neighbouring checks named in',
       'its meta.json.', '', '```']
out += ['%s %s' % (i, res[i]) for i in ids]
out += ['```', '']
n_det = sum(1 for i in ids if res[i].startswith('detected'))
out.append('%d recorded changes, %d detected, %d not: %s' % (len(ids), n_det, len(ids) - n_det, ', '.join(i for i in ids if not res[i].startswith('detected')) or '-'))
out.append('')
out.append('seeded/C08 differs from the unchanged code only inside the knife-edge band of the numeric policy (DESIGN section 3) and is deliberately not reported.')
out.append('seeded/C03-9 needs a Transaction object mutated after construction; it is recorded as undetected by design (DESIGN 12.4).')
open(os.path.join(os.path.dirname(os.path.abspath(__file__)), '..', 'seeded', 'REPLAY.md'), 'w').write('\n'.join(out) + '\n')
print(out[-4])
