#!/bin/bash
# usage: dbg.sh file.v LINE  -- truncates the file after LINE, appends "Show." and runs coqc
f=$1; n=$2
head -n $n $f > /tmp/Dbg_$$.v
echo " Show. " >> /tmp/Dbg_$$.v
(cd /verif/coq && coqc -R . QS /tmp/Dbg_$$.v 2>&1 | head -${3:-80})
rm -f /tmp/Dbg_$$.* /tmp/.Dbg_$$.*
