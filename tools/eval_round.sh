#!/bin/bash
# usage: eval_round.sh <round> <pid>...   evaluates the seeded change in /tmp/w<round>_<pid> with the pid's own check;
# stores it under seeded/<pid>-<n> (next free n) and prints one line per pid
rnd=$1; shift
for pid in "$@"; do
  n=2; while [ -d /verif/seeded/$pid-$n ]; do n=$((n+1)); done
  out=$(/verif/tools/try_seed2.sh $pid /tmp/w${rnd}_$pid $pid-$n $pid 2>&1 | grep -v WARNING)
  t=$(echo "$out" | grep -A1 "tests with change" | tail -1)
  d1=$(echo "$out" | grep -A1 "demo with change" | tail -1)
  d0=$(echo "$out" | grep -A1 "demo without change" | tail -1)
  v=$(echo "$out" | grep -c "^VIOLATION")
  nf=$(echo "$out" | grep -c "no-failing-input-found")
  echo "$pid-$n tests=[$t] demo_with=[$d1] demo_without=[$d0] violation=$v nofail=$nf"
done
