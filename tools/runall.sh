#!/bin/bash
# run every claimed quick check once (VERIF_SEED from the environment); report non-zero exits
cd "$(dirname "$0")/.."
fail=0
for p in $(/venv/bin/python -c "import json; print(' '.join(c['property_id'] for c in json.load(open('MANIFEST.json'))['checks']))"); do
  out=$(timeout 1200 ./check $p 2>&1); rc=$?
  echo "$out" | grep -E "^(VIOLATION|KNOWN-FINDING|HARNESS|C[0-9]+ tier)" | cut -c1-220
  [ $rc -ne 0 ] && { echo "!! $p exit $rc"; fail=1; }
done
exit $fail
