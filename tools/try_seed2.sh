#!/bin/bash
# usage: try_seed2.sh <pid> <worktree> <outdir-name> [checks...]: confirm a seeded change and run checks
# against the worktree itself (VERIF_REPO), leaving /repo untouched
set -u
pid=$1; wt=$2; name=$3; shift 3
d=/verif/seeded/$name; mkdir -p $d
git -C $wt diff -- qstrader > $d/patch.diff
cp $wt/demo_$pid.py $d/demo.py 2>/dev/null
cp $wt/NOTES_$pid.md $d/NOTES.md 2>/dev/null
echo "== tests with change"; (cd $wt && PYTHONPATH=$wt /venv/bin/python -m pytest -q -p no:cacheprovider tests 2>&1 | tail -1)
echo "== demo with change"; (cd $wt && PYTHONPATH=$wt /venv/bin/python $wt/demo_$pid.py >/dev/null 2>&1; echo "exit $?")
(cd $wt && git apply -R $d/patch.diff)
echo "== demo without change"; (cd $wt && PYTHONPATH=$wt /venv/bin/python $wt/demo_$pid.py >/dev/null 2>&1; echo "exit $?")
(cd $wt && git apply $d/patch.diff)
for c in "$@"; do echo "== check $c on the changed tree"; (cd /verif && VERIF_REPO=$wt ./check $c 2>&1 | grep -E "VIOLATION|HARNESS|tier=" | cut -c1-260); done
