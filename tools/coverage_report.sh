#!/bin/bash
# diagnostic: which lines of /repo/qstrader do the quick checks never execute?  (not part of any registered command)
d=$(mktemp -d /tmp/cov_XXXX)
cd /verif
for p in C01 C02 C03 C04 C05 C06 C07 C08 C09 C10 C11 C12 C13 C14 C15 C16 C17 C18 C19; do
  VERIF_COVERAGE=$d ./check $p >/dev/null 2>&1
done
cd $d && /venv/bin/python -m coverage combine -q --data-file=$d/.coverage $d/.coverage.* >/dev/null 2>&1
/venv/bin/python -m coverage report --data-file=$d/.coverage -m --include='*/qstrader/*' 2>&1 | grep -v "100%"
rm -rf $d
